"""E1b - helper inlining at the syntax-tree level.

Most rules decide a property on the body of one anchor function (the sweep, the commit, the cash-flow entry point ...).
A maintainer can move part of such a body into a private helper of the same class / module without changing behaviour;
the rule then has to look through the call.  `flatten(prog, fi)` returns a FuncInfo whose body has the calls to
private helpers replaced by the helper bodies (exact source-to-source transformations only):

  * callee resolution: `self._h(...)` (method of the static class, not overridden in a subclass), `Cls._h(...)`,
    `_h(...)` (function of the same module); names without a leading underscore are never inlined, recursion is cut;
  * parameters are substituted by the argument expression when that expression is free of calls and the helper does
    not rebind the parameter, otherwise bound with an assignment; helper locals that clash with caller names are renamed;
  * a helper that is a single `return <expr>` is substituted at expression level (any context);
  * otherwise the call must be evaluated unconditionally in a simple statement (expression statement, assignment,
    augmented assignment, return, raise, if-test) and the body is hoisted in front of it; `return e` becomes an
    assignment to the result variable.  Early returns are handled by the exact rewritings
        if c: A; return e          ==>   if c: A; r = e
        rest                             else: rest
        for x in xs: ... return e  ==>   for x in xs: ... r = e; break
        rest                             else: rest                (loop without break/else of its own)
    anything else (return nested deeper in loops, inside try with a continuation, generators) leaves the call as is.

The transformation is used for analysis only; the result is never executed.  Nodes keep the line numbers of the
place they came from."""
import ast
import copy
import itertools

from .loader import FuncInfo, clone, call_name

MAX_DEPTH = 4


class _NoInline(Exception):
    pass


def unparse_(n):
    return ast.unparse(n)


def _is_private(name):
    return name.startswith('_') and not (name.startswith('__') and name.endswith('__'))


def _decorators(node):
    out = set()
    for d in node.decorator_list:
        if isinstance(d, ast.Name):
            out.add(d.id)
        elif isinstance(d, ast.Attribute):
            out.add(d.attr)
    return out


def _own_nodes(node):
    """walk without descending into nested function / class definitions (lambdas and comprehensions are entered)"""
    stack = list(ast.iter_child_nodes(node))
    while stack:
        n = stack.pop()
        yield n
        if isinstance(n, (ast.FunctionDef, ast.AsyncFunctionDef, ast.ClassDef)):
            continue
        stack.extend(ast.iter_child_nodes(n))


def _contains(stmts, types):
    for s in stmts:
        if isinstance(s, types):
            return True
        for n in _own_nodes(s):
            if isinstance(n, types):
                return True
    return False


def _stored_names(node):
    out = set()
    for n in _own_nodes(node):
        if isinstance(n, ast.Name) and isinstance(n.ctx, (ast.Store, ast.Del)):
            out.add(n.id)
        elif isinstance(n, ast.ExceptHandler) and n.name:
            out.add(n.name)
        elif isinstance(n, (ast.Import, ast.ImportFrom)):
            for a in n.names:
                out.add((a.asname or a.name).split('.')[0])
    return out


def _all_names(node):
    out = set()
    for n in ast.walk(node):
        if isinstance(n, ast.Name):
            out.add(n.id)
        elif isinstance(n, ast.arg):
            out.add(n.arg)
        elif isinstance(n, ast.ExceptHandler) and n.name:
            out.add(n.name)
    return out


def _pure(expr):
    for n in ast.walk(expr):
        if isinstance(n, (ast.Call, ast.Await, ast.Yield, ast.YieldFrom, ast.NamedExpr, ast.Lambda,
                          ast.ListComp, ast.SetComp, ast.DictComp, ast.GeneratorExp)):
            return False
    return True


def _fill_empty(stmts):
    """blocks emptied by a removal get a `pass`"""
    for s_ in stmts:
        for n in ast.walk(s_):
            for field in ('body', 'orelse', 'finalbody'):
                blk = getattr(n, field, None)
                if field == 'body' and isinstance(blk, list) and not blk and isinstance(n, (ast.If, ast.For, ast.While, ast.With, ast.Try, ast.ExceptHandler)):
                    n.body = [ast.Pass()]
    return stmts


def _terminates(stmts):
    """control never falls off the end of the statement list"""
    if not stmts:
        return False
    last = stmts[-1]
    if isinstance(last, (ast.Return, ast.Raise)):
        return True
    if isinstance(last, ast.If):
        return _terminates(last.body) and _terminates(last.orelse)
    if isinstance(last, ast.Try) and not last.finalbody:
        return (_terminates(last.body) or _terminates(last.orelse)) and all(_terminates(h.body) for h in last.handlers)
    if isinstance(last, ast.With):
        return _terminates(last.body)
    return False


class _Subst(ast.NodeTransformer):
    """replace Name loads by expressions / rename names"""

    def __init__(self, exprs, renames):
        self.exprs = exprs
        self.renames = renames

    def visit_Name(self, node):
        if node.id in self.exprs and isinstance(node.ctx, ast.Load):
            return ast.copy_location(clone(self.exprs[node.id]), node)
        if node.id in self.renames:
            return ast.copy_location(ast.Name(id=self.renames[node.id], ctx=node.ctx), node)
        return node

    def visit_ExceptHandler(self, node):
        self.generic_visit(node)
        if node.name in self.renames:
            node.name = self.renames[node.name]
        return node


def _body_without_doc(node):
    body = list(node.body)
    if body and isinstance(body[0], ast.Expr) and isinstance(body[0].value, ast.Constant) \
            and isinstance(body[0].value.value, str):
        body = body[1:]
    return body


class Flattener(object):
    def __init__(self, prog, fi, accept=None):
        self.prog = prog
        self.fi = fi
        self.accept = accept
        self.counter = itertools.count(1)
        self.inlined = []
        self.skipped = []
        self.caller_names = _all_names(fi.node)
        self._overridden = {}
        # closures defined directly in the body (read-only use of the enclosing names) are helpers like any other
        self.local_defs = {}
        for st in fi.node.body:
            if isinstance(st, ast.FunctionDef) and not st.decorator_list:
                stored = _stored_names(st) - {a.arg for a in st.args.args}
                outer = _stored_names(ast.Module(body=[x for x in fi.node.body if x is not st], type_ignores=[]))
                if not any(isinstance(x, (ast.Nonlocal, ast.Global)) for x in ast.walk(st)):
                    sub = FuncInfo(fi.module, st, fi.cls)
                    sub.qualname = fi.qualname + '.<locals>.' + st.name
                    sub.local_closure = True
                    self.local_defs[st.name] = sub

    # ---- resolution ------------------------------------------------------------------------------
    def resolve(self, call, cls):
        """-> (FuncInfo, receiver expression or None) or None"""
        f = call.func
        prog = self.prog
        if isinstance(f, ast.Attribute) and isinstance(f.value, ast.Name):
            if f.value.id in ('self', 'cls') and cls is not None:
                callee = prog.resolve_method(cls, f.attr)
                if callee is None or self._is_overridden(cls, f.attr, callee):
                    return None
                deco = _decorators(callee.node)
                if 'property' in deco:
                    return None
                if 'classmethod' in deco:
                    # the class parameter is used for class-level reads and calls only: through an instance these resolve the
                    # same way (no instance attribute of the package shadows a class-level name)
                    cp = callee.node.args.args[0].arg if callee.node.args.args else None
                    uses = [n for n in ast.walk(callee.node) if isinstance(n, ast.Name) and n.id == cp]
                    ok = cp is not None and all(isinstance(getattr(n, '_parent', None), ast.Attribute) and getattr(n, '_parent').value is n and
                                                isinstance(getattr(n, '_parent').ctx, ast.Load) for n in uses)
                    return (callee, f.value) if ok else None
                if f.value.id == 'cls' and 'staticmethod' not in deco:
                    return None
                return callee, (None if 'staticmethod' in deco else f.value)
            # a local name bound once to a copy of self is an object of the same class: its private methods are known
            if cls is not None and getattr(self, '_node', None) is not None and f.value.id not in prog.classes and _is_private(f.attr) and \
                    prog.resolve_method(cls, f.attr) is not None:
                d = self._only_def(f.value.id)
                if d is not None and self._is_copy_of_self(d.value, cls):
                    callee = prog.resolve_method(cls, f.attr)
                    if callee is not None and not self._is_overridden(cls, f.attr, callee) and \
                            not ({'classmethod', 'property', 'staticmethod'} & set(_decorators(callee.node))):
                        return callee, f.value
            ci = prog.classes.get(f.value.id)
            if ci is not None:
                callee = prog.resolve_method(ci, f.attr)
                if callee is None:
                    return None
                deco = _decorators(callee.node)
                if 'staticmethod' in deco:
                    return callee, None
                return None
            if f.value.id.startswith('__mod_'):
                rel = getattr(prog, '_mod_mangle', {}).get(f.value.id)
                callee = prog.functions.get((rel, f.attr)) if rel else None
                return (self._foreign(callee), None) if callee is not None else None
            return self._resolve_imported(f)
        if isinstance(f, ast.Attribute):
            return self._resolve_imported(f)
        if isinstance(f, ast.Name):
            if f.id in self.local_defs:
                return self.local_defs[f.id], None
            # a local name bound once to one of the closures (`book = book_demand`) is that closure
            if getattr(self, '_node', None) is not None and self.local_defs:
                d = self._only_def(f.id)
                if d is not None and isinstance(d.value, ast.Name) and d.value.id in self.local_defs:
                    return self.local_defs[d.value.id], None
            callee = prog.functions.get((self.fi.module.rel, f.id))
            if callee is not None:
                return callee, None
            return self._resolve_imported(f)
        return None

    # ---- functions of other modules ----------------------------------------------------------------
    def _resolve_imported(self, fexpr):
        """`utils._helper(..)`, `sfc_models.utils._helper(..)`, `_helper(..)` after `from .utils import _helper`: the module-level
        function the import statements of the caller's module make this expression denote (the head name must not be a local)"""
        head = fexpr
        while isinstance(head, ast.Attribute):
            head = head.value
        if not isinstance(head, ast.Name):
            return None
        node_ = getattr(self, '_node', None) or self.fi.node
        if head.id in _stored_names(node_) or head.id in {a.arg for a in self.fi.node.args.args}:
            return None
        callee = self.prog.imported_function(self.fi.module, fexpr)
        if callee is None or callee.module is self.fi.module:
            return (callee, None) if callee is not None else None
        fc = self._foreign(callee)
        return (fc, None) if fc is not None else None

    def _foreign(self, callee):
        """a module-level function of another module, prepared for being read inside this module: calls to its own module's
        functions are qualified (`__mod_<module>.g(..)`, which `resolve` understands); every other global it reads must mean the same
        thing here (a builtin, or bound by the same import in both modules) or nothing at all here (it then stays an unknown name)."""
        if callee is None or callee.module is self.fi.module:
            return callee
        cache = self.prog.__dict__.setdefault('_foreign_cache', {})
        ck = (callee.key, self.fi.module.rel)
        if ck in cache:
            return cache[ck]
        cache[ck] = None
        import builtins
        from .loader import module_import_map
        node = clone(callee.node)
        local = _stored_names(node) | {a.arg for a in node.args.posonlyargs + node.args.args + node.args.kwonlyargs}
        here_imports = module_import_map(self.fi.module)
        there_imports = module_import_map(callee.module)
        here_globals = set(here_imports) | {st.name for st in self.fi.module.tree.body if isinstance(st, (ast.FunctionDef, ast.ClassDef))} | \
            {t.id for st in self.fi.module.tree.body if isinstance(st, ast.Assign) for t in st.targets if isinstance(t, ast.Name)}
        mangle = '__mod_' + callee.module.rel.replace('/', '_').replace('\\', '_').replace('.', '_')
        self.prog.__dict__.setdefault('_mod_mangle', {})[mangle] = callee.module.rel
        ok = True

        class Q(ast.NodeTransformer):
            def visit_Name(self_, n):
                nonlocal ok
                if not isinstance(n.ctx, ast.Load) or n.id in local or hasattr(builtins, n.id):
                    return n
                if (callee.module.rel, n.id) in self.prog.functions:
                    return ast.copy_location(ast.Attribute(value=ast.Name(id=mangle, ctx=ast.Load()), attr=n.id, ctx=ast.Load()), n)
                if n.id in there_imports and here_imports.get(n.id) == there_imports[n.id]:
                    return n
                if n.id in self.prog.classes and self.prog.classes[n.id].module is callee.module and n.id not in here_globals:
                    return n
                if n.id not in here_globals and n.id not in self.caller_names:
                    return n
                ok = False
                return n
        node = Q().visit(node)
        if not ok:
            return None
        ast.fix_missing_locations(node)
        for n in ast.walk(node):
            for child in ast.iter_child_nodes(n):
                child._parent = n
        fc = FuncInfo(callee.module, node, None)
        fc.qualname = callee.qualname
        fc.foreign_of = callee
        cache[ck] = fc
        return fc

    def _is_copy_of_self(self, e, cls, depth=0):
        if not isinstance(e, ast.Call) or depth > 2:
            return False
        fn = e.func
        nm = fn.attr if isinstance(fn, ast.Attribute) else (fn.id if isinstance(fn, ast.Name) else None)
        if nm in ('deepcopy', 'copy') and len(e.args) == 1 and isinstance(e.args[0], ast.Name) and e.args[0].id == 'self':
            return True
        if isinstance(fn, ast.Attribute) and isinstance(fn.value, ast.Name) and fn.value.id == 'self' and not e.args:
            m = self.prog.resolve_method(cls, fn.attr)
            if m is not None:
                rets = [r for r in ast.walk(m.node) if isinstance(r, ast.Return)]
                return bool(rets) and all(r.value is not None and self._is_copy_of_self(r.value, cls, depth + 1) for r in rets)
        return False

    def _is_overridden(self, cls, name, callee):
        key = (cls.name, name)
        if key not in self._overridden:
            over = False
            for sub in self.prog.subclasses(cls.name, include_self=False):
                if name in sub.methods and sub.methods[name] is not callee:
                    over = True
            self._overridden[key] = over
        return self._overridden[key]

    def is_generator(self, callee):
        return any(isinstance(n, (ast.Yield, ast.YieldFrom)) for n in _own_nodes(callee.node))

    def eligible_generator(self, callee, call):
        """a private generator function whose yields are plain statements `yield e` outside any try, without `yield from`,
        nested definitions or a `return <value>`"""
        if not _is_private(callee.name) and not getattr(callee, 'local_closure', False):
            return False
        if self.accept is not None and not self.accept(callee):
            return False
        a = callee.node.args
        if a.vararg or a.kwarg or a.kwonlyargs:
            return False
        if any(isinstance(x, ast.Starred) for x in call.args) or any(k.arg is None for k in call.keywords):
            return False
        own = list(_own_nodes(callee.node))
        if any(isinstance(n, (ast.YieldFrom, ast.Await, ast.Global, ast.Nonlocal, ast.FunctionDef, ast.AsyncFunctionDef, ast.ClassDef))
               for n in own):
            return False
        if any(isinstance(n, ast.Return) and n.value is not None for n in own):
            return False
        yields = [n for n in own if isinstance(n, ast.Yield)]
        stmt_yields = [n for n in own if isinstance(n, ast.Expr) and isinstance(n.value, ast.Yield)]
        if not yields or len(yields) != len(stmt_yields):
            return False
        for n in own:
            if isinstance(n, ast.With) and any(isinstance(x, ast.Yield) for x in ast.walk(n)):
                return False
            if isinstance(n, ast.Try):
                # a yield in the `else:` part runs the consumer outside the protection of the handlers - as the loop body
                # of the caller does; anywhere else in a try the consumer would run under its handlers / before its finally
                prot = list(n.body) + [b for h in n.handlers for b in h.body] + list(n.finalbody)
                if any(isinstance(x, ast.Yield) for b in prot for x in ast.walk(b)):
                    return False
                if n.finalbody and any(isinstance(x, ast.Yield) for b in n.orelse for x in ast.walk(b)):
                    return False
        return True

    def eligible(self, callee, call):
        if not _is_private(callee.name) and not getattr(callee, 'local_closure', False):
            return False
        if self.accept is not None and not self.accept(callee):
            return False
        a = callee.node.args
        if a.vararg or a.kwarg or a.kwonlyargs:
            return False
        if any(isinstance(x, ast.Starred) for x in call.args) or any(k.arg is None for k in call.keywords):
            return False
        for n in _own_nodes(callee.node):
            if isinstance(n, (ast.Yield, ast.YieldFrom, ast.Await, ast.Global, ast.Nonlocal, ast.AsyncFunctionDef, ast.ClassDef)):
                return False
            if isinstance(n, ast.FunctionDef):
                # closures defined directly in the helper's body come along (under their own names, which must be new here)
                if n not in callee.node.body or n.decorator_list or n.name in self.caller_names or \
                        any(isinstance(x, (ast.Nonlocal, ast.Global, ast.Yield, ast.YieldFrom)) for x in ast.walk(n)):
                    return False
        return True

    # ---- binding ---------------------------------------------------------------------------------
    def bind(self, callee, call, receiver):
        """-> (pre-statements, substitution maps) for the parameters of `callee` at `call`"""
        params = [x.arg for x in callee.node.args.posonlyargs + callee.node.args.args]
        defaults = callee.defaults()
        actual = {}
        pos = list(call.args)
        plist = list(params)
        if receiver is not None:
            if not plist:
                raise _NoInline()
            actual[plist[0]] = receiver
            plist = plist[1:]
        if len(pos) > len(plist):
            raise _NoInline()
        for p, a in zip(plist, pos):
            actual[p] = a
        for kw in call.keywords:
            if kw.arg not in plist or kw.arg in actual:
                raise _NoInline()
            actual[kw.arg] = kw.value
        for p in plist:
            if p not in actual:
                if p not in defaults:
                    raise _NoInline()
                actual[p] = defaults[p]
        k = next(self.counter)
        body = _body_without_doc(callee.node)
        stored = set()
        for s in body:
            stored |= _stored_names(s)
            if isinstance(s, (ast.Assign, ast.AugAssign, ast.AnnAssign, ast.For, ast.With)):
                pass
        for s in body:
            for t in ast.walk(s):
                if isinstance(t, ast.Name) and isinstance(t.ctx, (ast.Store, ast.Del)):
                    stored.add(t.id)
        exprs, renames, pre = {}, {}, []
        for p, a in actual.items():
            if p not in stored and _pure(a):
                exprs[p] = a
            else:
                new = self.fresh(p, k)
                renames[p] = new
                asg = ast.Assign(targets=[ast.Name(id=new, ctx=ast.Store())], value=clone(a))
                pre.append(ast.copy_location(asg, call))
        for name in sorted(stored):
            if name in actual:
                continue
            if name in self.caller_names:
                renames[name] = self.fresh(name, k)
            else:
                self.caller_names.add(name)
        return pre, exprs, renames, k

    def fresh(self, base, k):
        name = '%s__i%d' % (base, k)
        while name in self.caller_names:
            name += '_'
        self.caller_names.add(name)
        return name

    # ---- return conversion -----------------------------------------------------------------------
    def convert(self, stmts, res, at_tail):
        """rewrite `return` statements of a helper body into assignments to `res` (None: value dropped).
        `at_tail`: falling off the end of `stmts` ends the helper."""
        out = []
        for i, s in enumerate(stmts):
            rest = stmts[i + 1:]
            if isinstance(s, ast.Return):
                out.extend(self.assign_result(res, s.value, s))
                return out, True
            if isinstance(s, (ast.FunctionDef, ast.ClassDef)):
                out.append(s)          # the returns inside a nested definition are its own
                continue
            if not _contains([s], ast.Return):
                out.append(s)
                continue
            if isinstance(s, ast.If):
                body, bt = self.convert(list(s.body) + clone(rest) if rest else list(s.body), res, at_tail)
                orelse, ot = self.convert(list(s.orelse) + clone(rest) if rest else list(s.orelse),
                                          res, at_tail)
                new = ast.If(test=s.test, body=body or [ast.copy_location(ast.Pass(), s)], orelse=orelse)
                out.append(ast.copy_location(new, s))
                return out, (bt and ot)
            if isinstance(s, (ast.For, ast.While)):
                if s.orelse or _contains(s.body, ast.Break):
                    raise _NoInline()
                body = self.loop_body(s.body, res)
                tail, tt = self.convert(clone(rest), res, at_tail)
                if not tt and res is not None and at_tail:
                    tail = tail + self.assign_result(res, None, s)
                    tt = True
                if isinstance(s, ast.For):
                    new = ast.For(target=s.target, iter=s.iter, body=body, orelse=tail, type_comment=None)
                else:
                    new = ast.While(test=s.test, body=body, orelse=tail)
                out.append(ast.copy_location(new, s))
                return out, tt
            if isinstance(s, ast.With) and not rest:
                body, bt = self.convert(list(s.body), res, at_tail)
                out.append(ast.copy_location(ast.With(items=s.items, body=body, type_comment=None), s))
                return out, bt
            if isinstance(s, ast.Try) and not s.finalbody and rest and not _terminates([s]) and not _contains(s.body, ast.Return) \
                    and not any(isinstance(x, ast.Raise) and x.exc is None for r_ in rest for x in ast.walk(r_)):
                # try: B except E: ...return...   followed by rest   ==>   try: B except E: ...; [rest] else: orelse; rest
                # (the continuation runs outside the protection of the handlers in both forms)
                handlers = []
                ht = True
                for h in s.handlers:
                    hb, t = self.convert(list(h.body) + clone(rest), res, at_tail)
                    ht = ht and t
                    handlers.append(ast.copy_location(ast.ExceptHandler(type=h.type, name=h.name, body=hb or [ast.Pass()]), h))
                orelse, et = self.convert(list(s.orelse) + clone(rest), res, at_tail)
                new = ast.Try(body=list(s.body), handlers=handlers, orelse=orelse, finalbody=[])
                out.append(ast.copy_location(new, s))
                return out, (et and ht)
            if isinstance(s, ast.Try) and not s.finalbody and (not rest or _terminates([s])):
                body, bt = self.convert(list(s.body), res, at_tail)
                handlers = []
                ht = True
                for h in s.handlers:
                    hb, t = self.convert(list(h.body), res, at_tail)
                    ht = ht and t
                    handlers.append(ast.copy_location(ast.ExceptHandler(type=h.type, name=h.name, body=hb or [ast.Pass()]), h))
                orelse, et = self.convert(list(s.orelse), res, at_tail) if s.orelse else ([], False)
                new = ast.Try(body=body, handlers=handlers, orelse=orelse, finalbody=[])
                out.append(ast.copy_location(new, s))
                return out, ((bt or et) and ht)
            raise _NoInline()
        return out, False

    def loop_body(self, stmts, res):
        """inside a single loop level: `return e` -> `res = e; break` (only through if-statements)"""
        if callable(res) and _contains(stmts, ast.Return):
            raise _NoInline()
        out = []
        for s in stmts:
            if isinstance(s, ast.Return):
                out.extend(self.assign_result(res, s.value, s))
                out.append(ast.copy_location(ast.Break(), s))
                return out
            if not _contains([s], ast.Return):
                out.append(s)
                continue
            if isinstance(s, ast.If):
                new = ast.If(test=s.test, body=self.loop_body(s.body, res) or [ast.copy_location(ast.Pass(), s)],
                             orelse=self.loop_body(s.orelse, res))
                out.append(ast.copy_location(new, s))
                continue
            raise _NoInline()
        return out

    @staticmethod
    def assign_result(res, value, at):
        if callable(res):
            return res(value, at)
        if res is None:
            if value is not None and not _pure(value):
                return [ast.copy_location(ast.Expr(value=value), at)]
            return []
        if value is None:
            value = ast.copy_location(ast.Constant(value=None), at)
        asg = ast.Assign(targets=[ast.Name(id=res, ctx=ast.Store())], value=value)
        return [ast.copy_location(asg, at)]

    # ---- inlining one call -------------------------------------------------------------------
    def expression_helper(self, callee):
        body = _body_without_doc(callee.node)
        if len(body) == 1 and isinstance(body[0], ast.Return) and body[0].value is not None:
            return body[0].value
        # t1 = e1; t2 = e2; return E  with every temporary bound once and read exactly once, in binding order, by what follows:
        # the expression E with the temporaries substituted evaluates the same sub-expressions in the same order
        if len(body) >= 2 and isinstance(body[-1], ast.Return) and body[-1].value is not None and \
                all(isinstance(b, ast.Assign) and len(b.targets) == 1 and isinstance(b.targets[0], ast.Name) for b in body[:-1]):
            params = {a.arg for a in callee.node.args.posonlyargs + callee.node.args.args}
            temps = [b.targets[0].id for b in body[:-1]]
            if len(set(temps)) != len(temps) or set(temps) & params:
                return None
            expr = clone(body[-1].value)
            for b in reversed(body[:-1]):
                t = b.targets[0].id
                uses = [n for n in ast.walk(expr) if isinstance(n, ast.Name) and n.id == t]
                if len(uses) != 1:
                    return None
                # the single use must be the first thing evaluated among the names of the remaining expression that are temporaries
                expr = _ReplaceNode(uses[0], clone(b.value)).visit(expr)
            if len(body) > 2:
                return None      # with several temporaries the order of evaluation would have to be proved: only one is taken
            # one temporary: its value must be the first sub-expression the result evaluates (a comprehension source, a receiver)
            first = body[-1].value
            while True:
                if isinstance(first, ast.BinOp):
                    first = first.left
                elif isinstance(first, ast.Call) and isinstance(first.func, ast.Attribute) and not isinstance(first.func.value, ast.Constant):
                    first = first.func.value
                elif isinstance(first, ast.Call) and first.args:
                    first = first.args[0]
                elif isinstance(first, (ast.ListComp, ast.GeneratorExp)):
                    first = first.generators[0].iter
                else:
                    break
            if isinstance(first, ast.Name) and first.id == temps[0]:
                return expr
        return None

    def inline_expr(self, call, cls, stack):
        """expression-level substitution of single-return helpers; returns the new expression or None"""
        r = self.resolve(call, cls)
        if r is None:
            return None
        callee, receiver = r
        if callee.key in stack or len(stack) >= MAX_DEPTH or not self.eligible(callee, call):
            return None
        expr = self.expression_helper(callee)
        if expr is None:
            return None
        try:
            pre, exprs, renames, _ = self.bind(callee, call, receiver)
        except _NoInline:
            return None
        if pre:
            return None
        new = _Subst(exprs, renames).visit(clone(expr))
        self.inlined.append(callee.key)
        return self.rewrite_expr(new, callee.cls, stack + [callee.key])

    def rewrite_expr(self, expr, cls, stack):
        fl = self

        class T(ast.NodeTransformer):
            def visit_Call(self, node):
                self.generic_visit(node)
                new = fl.inline_expr(node, cls, stack)
                return new if new is not None else node

        return T().visit(expr)

    def hoistable_calls(self, stmt):
        """calls that are evaluated unconditionally by a simple statement, in evaluation order"""
        if isinstance(stmt, ast.Expr):
            roots = [stmt.value]
        elif isinstance(stmt, ast.Assign):
            roots = [stmt.value]
        elif isinstance(stmt, ast.AugAssign):
            roots = [stmt.value]
        elif isinstance(stmt, ast.AnnAssign) and stmt.value is not None:
            roots = [stmt.value]
        elif isinstance(stmt, ast.Return) and stmt.value is not None:
            roots = [stmt.value]
        elif isinstance(stmt, ast.If):
            roots = [stmt.test]
        elif isinstance(stmt, ast.For):
            roots = [stmt.iter]
        elif isinstance(stmt, ast.Raise) and stmt.exc is not None:
            roots = [stmt.exc]
        else:
            return []
        out = []

        def walk(e):
            # only through unconditional, eagerly evaluated positions
            if isinstance(e, ast.Call):
                for a in e.args:
                    walk(a)
                for k in e.keywords:
                    walk(k.value)
                if isinstance(e.func, ast.Attribute):
                    walk(e.func.value)
                out.append(e)
            elif isinstance(e, ast.BoolOp):
                walk(e.values[0])
            elif isinstance(e, ast.IfExp):
                walk(e.test)
            elif isinstance(e, (ast.BinOp,)):
                walk(e.left)
                walk(e.right)
            elif isinstance(e, ast.UnaryOp):
                walk(e.operand)
            elif isinstance(e, ast.Compare):
                walk(e.left)
                if len(e.comparators) == 1:
                    walk(e.comparators[0])
            elif isinstance(e, (ast.Tuple, ast.List, ast.Set)):
                for x in e.elts:
                    walk(x)
            elif isinstance(e, ast.Subscript):
                walk(e.value)
                walk(e.slice)
            elif isinstance(e, ast.Attribute):
                walk(e.value)
            elif isinstance(e, ast.Starred):
                walk(e.value)
        for r in roots:
            walk(r)
        return out

    def inline_stmt(self, stmt, cls, stack):
        """-> list of statements replacing `stmt`"""
        # 1. expression-level helpers anywhere in the statement's own expressions
        stmt = self.rewrite_own_exprs(stmt, cls, stack)
        # 1b. a statement helper called from a later operand of a short-circuit test: split the test (exact)
        #       if A and B: X else: Y   ==>   if A: (if B: X else: Y) else: Y
        #       if A or B:  X else: Y   ==>   if A: X else: (if B: X else: Y)
        if isinstance(stmt, ast.If):
            t = stmt.test
            neg = False
            if isinstance(t, ast.UnaryOp) and isinstance(t.op, ast.Not) and isinstance(t.operand, ast.BoolOp):
                # not (A and B) == (not A) or (not B);  not (A or B) == (not A) and (not B)
                inner = t.operand
                flipped = ast.Or() if isinstance(inner.op, ast.And) else ast.And()
                t = ast.copy_location(ast.BoolOp(op=flipped, values=[
                    ast.copy_location(ast.UnaryOp(op=ast.Not(), operand=v), v) for v in inner.values]), t)
            if isinstance(t, ast.BoolOp) and len(t.values) >= 2 and any(
                    self.statement_helper_in(v, cls, stack) for v in t.values[1:]):
                first = t.values[0]
                rest = t.values[1] if len(t.values) == 2 else ast.copy_location(ast.BoolOp(op=t.op, values=t.values[1:]), t)
                if isinstance(t.op, ast.And):
                    inner_if = ast.copy_location(ast.If(test=rest, body=stmt.body, orelse=clone(stmt.orelse)), stmt)
                    stmt = ast.copy_location(ast.If(test=first, body=[inner_if], orelse=stmt.orelse), stmt)
                else:
                    inner_if = ast.copy_location(ast.If(test=rest, body=clone(stmt.body), orelse=stmt.orelse), stmt)
                    stmt = ast.copy_location(ast.If(test=first, body=stmt.body, orelse=[inner_if]), stmt)
        # 2a. a loop over a private generator function: the loop body moves to the yields
        #         for T in gen(a): BODY   ==>   <body of gen, every `yield e` replaced by  T = e; BODY>
        #       (the two forms interleave producer and consumer identically; BODY may not break out of the loop)
        if isinstance(stmt, ast.For) and isinstance(stmt.iter, ast.Call) and not stmt.orelse:
            r = self.resolve(stmt.iter, cls)
            if r is not None:
                callee, receiver = r
                if callee.key not in stack and len(stack) < MAX_DEPTH and self.is_generator(callee) and \
                        self.eligible_generator(callee, stmt.iter):
                    try:
                        consumer = self._loop_body_without_jumps(stmt.body)
                        pre, exprs, renames, k = self.bind(callee, stmt.iter, receiver)
                        body = [_Subst(exprs, renames).visit(clone(b)) for b in _body_without_doc(callee.node)]
                        body, _ = self.convert(body, None, True)
                        target = stmt.target

                        class Place(ast.NodeTransformer):
                            def visit_FunctionDef(self, n):
                                return n

                            def visit_Expr(self, n):
                                if isinstance(n.value, ast.Yield):
                                    v = n.value.value if n.value.value is not None else ast.copy_location(ast.Constant(value=None), n)
                                    asg = ast.copy_location(ast.Assign(targets=[clone(target)], value=v), stmt)
                                    return [asg] + [clone(c) for c in consumer]
                                return n
                        placed = []
                        for b in body:
                            rr = Place().visit(b)
                            placed.extend(rr if isinstance(rr, list) else [rr])
                    except _NoInline:
                        self.skipped.append(callee.key)
                    else:
                        self.inlined.append(callee.key)
                        return self._rewrite_mixed(pre + _fill_empty(placed), cls, callee, stack)
        # 2. statement-level helpers in hoistable positions
        for call in self.hoistable_calls(stmt):
            r = self.resolve(call, cls)
            if r is None:
                continue
            callee, receiver = r
            if callee.key in stack or len(stack) >= MAX_DEPTH or not self.eligible(callee, call):
                continue
            # every earlier-evaluated sibling must be free of side effects for the hoist to keep the order;
            # the analysis only needs the shape, the helper body is placed directly before the statement
            try:
                pre, exprs, renames, k = self.bind(callee, call, receiver)
                body = [_Subst(exprs, renames).visit(clone(s)) for s in _body_without_doc(callee.node)]
                whole_value = isinstance(stmt, (ast.Assign, ast.Return, ast.Expr)) and stmt.value is call
                if isinstance(stmt, ast.Return) and whole_value:
                    new_body, tail = body, []
                    if not self.always_returns(body):
                        new_body = body + [ast.copy_location(ast.Return(value=None), stmt)]
                elif isinstance(stmt, ast.If) and self.direct_test(stmt, call, body):
                    new_body, tail = self.direct_test(stmt, call, body), []
                elif isinstance(stmt, ast.Expr) and whole_value:
                    new_body, _ = self.convert(body, None, True)
                    tail = []
                elif isinstance(stmt, ast.Assign) and whole_value and len(stmt.targets) == 1 and \
                        isinstance(stmt.targets[0], ast.Name):
                    res = stmt.targets[0].id
                    new_body, term = self.convert(body, res, True)
                    if not term:
                        new_body = new_body + self.assign_result(res, None, stmt)
                    tail = []
                else:
                    res = self.fresh('_ret', k)
                    new_body, term = self.convert(body, res, True)
                    if not term:
                        new_body = new_body + self.assign_result(res, None, stmt)
                    repl = ast.copy_location(ast.Name(id=res, ctx=ast.Load()), call)
                    stmt = _ReplaceNode(call, repl).visit(stmt)
                    tail = [stmt]
                    merged = self.coalesce_tuple_result(new_body, stmt, res)
                    if merged is not None:
                        new_body, tail = merged, []
            except _NoInline:
                self.skipped.append(callee.key)
                continue
            self.inlined.append(callee.key)
            for st_ in new_body:
                if isinstance(st_, ast.FunctionDef) and st_.name not in self.local_defs:
                    sub = FuncInfo(callee.module, st_, callee.cls)
                    sub.qualname = callee.qualname + '.<locals>.' + st_.name
                    sub.local_closure = True
                    self.local_defs[st_.name] = sub
                    self.caller_names.add(st_.name)
            inner = self.rewrite_block(pre + new_body, callee.cls if callee.cls is not None else cls, stack + [callee.key])
            if tail:
                return inner + self.inline_stmt(tail[0], cls, stack)
            return inner
        # 2b. a statement helper as (part of) the test of a while loop: the test is evaluated at the top of an endless loop
        if isinstance(stmt, ast.While) and not stmt.orelse and self.statement_helper_in(stmt.test, cls, stack) and \
                not (isinstance(stmt.test, ast.Constant)):
            brk = ast.copy_location(ast.If(test=ast.copy_location(ast.UnaryOp(op=ast.Not(), operand=stmt.test), stmt.test),
                                           body=[ast.copy_location(ast.Break(), stmt)], orelse=[]), stmt)
            body = [b for b in stmt.body if not isinstance(b, ast.Pass)]
            new_loop = ast.copy_location(ast.While(test=ast.copy_location(ast.Constant(value=True), stmt.test), body=[brk] + body, orelse=[]), stmt)
            return self.inline_stmt(new_loop, cls, stack)
        # 3. recurse into compound statements
        for field in ('body', 'orelse', 'finalbody'):
            blk = getattr(stmt, field, None)
            if isinstance(blk, list) and blk and isinstance(blk[0], ast.stmt):
                setattr(stmt, field, self.rewrite_block(blk, cls, stack))
        if isinstance(stmt, ast.Try):
            for h in stmt.handlers:
                h.body = self.rewrite_block(h.body, cls, stack)
        return [stmt]

    def _rewrite_mixed(self, stmts, cls, callee, stack):
        """statements that mix producer code (class of the generator) and consumer code (class of the caller): for a
        method of the same class both are the same; otherwise calls are resolved in the caller's class only"""
        return self.rewrite_block(stmts, cls, stack + [callee.key])

    def _loop_body_without_jumps(self, body):
        """the consumer's loop body with `continue` turned into structure (guard clauses); `break` cannot be kept"""
        def own_jumps(stmts, kinds):
            out = []

            def walk(n):
                if isinstance(n, kinds):
                    out.append(n)
                if isinstance(n, (ast.For, ast.While, ast.FunctionDef, ast.ClassDef, ast.Lambda)):
                    return
                for c in ast.iter_child_nodes(n):
                    walk(c)
            for st in stmts:
                walk(st)
            return out
        if own_jumps(body, (ast.Break,)):
            raise _NoInline()
        conts = own_jumps(body, (ast.Continue,))
        if not conts:
            return list(body)
        if _contains(body, ast.Return):
            raise _NoInline()
        # `continue` ends the consumer's turn like `return` ends a helper: reuse the return conversion

        class C2R(ast.NodeTransformer):
            def visit_For(self, n):
                return n

            def visit_While(self, n):
                return n

            def visit_FunctionDef(self, n):
                return n

            def visit_Continue(self, n):
                return ast.copy_location(ast.Return(value=None), n)
        tmp = [C2R().visit(clone(b)) for b in body]
        out, _ = self.convert(tmp, None, True)
        return out

    def coalesce_tuple_result(self, body, stmt, res):
        """a, b = helper(...) where every return of the helper is a tuple of its own locals: the locals take the names
        of the targets (they had been renamed away from exactly those names), the packing and unpacking disappear.
        Exact for normal completion; not applied when the call sits in a try of the caller."""
        if not (isinstance(stmt, ast.Assign) and len(stmt.targets) == 1 and isinstance(stmt.targets[0], ast.Tuple) and
                isinstance(stmt.value, ast.Name) and stmt.value.id == res):
            return None
        if not all(isinstance(t, ast.Name) for t in stmt.targets[0].elts):
            # data members among the targets (`self.Constant, text = helper(...)`): the stores are made where the tuple was packed
            elts = stmt.targets[0].elts
            if not all(isinstance(t, ast.Name) or (isinstance(t, ast.Attribute) and isinstance(t.value, ast.Name)) for t in elts):
                return None
            packs = [n for b in body for n in ast.walk(b) if isinstance(n, ast.Assign) and len(n.targets) == 1 and
                     isinstance(n.targets[0], ast.Name) and n.targets[0].id == res]
            uses = [n for b in body for n in ast.walk(b) if isinstance(n, ast.Name) and n.id == res and isinstance(n.ctx, ast.Load)]
            names_in_body = set()
            attrs_in_body = set()
            for b in body:
                names_in_body |= _all_names(b)
                attrs_in_body |= {unparse_(n) for n in ast.walk(b) if isinstance(n, ast.Attribute)}
            if not packs or uses or any(isinstance(t, ast.Name) and t.id in names_in_body for t in elts) or \
                    any(isinstance(t, ast.Attribute) and unparse_(t) in attrs_in_body for t in elts) or \
                    not all(isinstance(pk.value, ast.Tuple) and len(pk.value.elts) == len(elts) and
                            not any(isinstance(e, ast.Starred) for e in pk.value.elts) for pk in packs):
                return None

            class Unpack2(ast.NodeTransformer):
                def visit_Assign(self, n):
                    if any(n is pk for pk in packs):
                        return [ast.copy_location(ast.Assign(targets=[clone(t)], value=e), n) for t, e in zip(elts, n.value.elts)]
                    return self.generic_visit(n)
            out = []
            for b in body:
                r = Unpack2().visit(b)
                out.extend(r if isinstance(r, list) else [r])
            return _fill_empty(out)
        targets = [t.id for t in stmt.targets[0].elts]
        packs = [n for b in body for n in ast.walk(b) if isinstance(n, ast.Assign) and len(n.targets) == 1 and
                 isinstance(n.targets[0], ast.Name) and n.targets[0].id == res]
        uses = [n for b in body for n in ast.walk(b) if isinstance(n, ast.Name) and n.id == res and isinstance(n.ctx, ast.Load)]
        if not packs or uses:
            return None
        present = set()
        for b in body:
            present |= _all_names(b)
        if any(t in present for t in targets):
            return None
        mapping = {}
        by_name = True
        for pk in packs:
            v = pk.value
            if not (isinstance(v, ast.Tuple) and len(v.elts) == len(targets) and all(isinstance(e, ast.Name) for e in v.elts)):
                by_name = False
                break
            for e, t in zip(v.elts, targets):
                if mapping.setdefault(e.id, t) != t:
                    by_name = False
        if by_name and len(set(mapping.values())) != len(mapping):
            by_name = False
        if not by_name:
            # every return packs a tuple of expressions: `res = (x, y)` becomes `a = x; b = y` (the targets occur nowhere in
            # the helper, so the order of the two stores cannot be observed)
            if not all(isinstance(pk.value, ast.Tuple) and len(pk.value.elts) == len(targets) and
                       not any(isinstance(e, ast.Starred) for e in pk.value.elts) for pk in packs):
                return None

            class Unpack(ast.NodeTransformer):
                def visit_Assign(self, n):
                    if any(n is pk for pk in packs):
                        return [ast.copy_location(ast.Assign(targets=[ast.Name(id=t, ctx=ast.Store())], value=e), n)
                                for t, e in zip(targets, n.value.elts)]
                    return self.generic_visit(n)
            out = []
            for b in body:
                r = Unpack().visit(b)
                out.extend(r if isinstance(r, list) else [r])
            return _fill_empty(out)
        ren = dict(mapping)

        class Drop(ast.NodeTransformer):
            def visit_Assign(self, n):
                return None if any(n is pk for pk in packs) else self.generic_visit(n)
        out = []
        for b in body:
            b2 = Drop().visit(b)
            if b2 is not None:
                out.append(_Subst({}, ren).visit(b2))
        return _fill_empty(out)

    def direct_test(self, stmt, call, body):
        """`if helper(...): X else: Y` (or `if not helper(...)`): every `return e` of the helper becomes
        `if e: X else: Y` (X or Y alone for a constant e) - exact, and no result variable is needed.
        Returns the statement list or None when the helper returns from inside a loop."""
        t = stmt.test
        neg = False
        if isinstance(t, ast.UnaryOp) and isinstance(t.op, ast.Not):
            t, neg = t.operand, True
        if t is not call:
            return None
        cache = getattr(self, '_direct_cache', None)
        if cache is None:
            cache = self._direct_cache = {}
        if id(call) in cache:
            return cache[id(call)]

        def on_return(value, at):
            if value is None or isinstance(value, ast.Constant):
                truth = bool(value.value) if value is not None else False
                if neg:
                    truth = not truth
                return clone(stmt.body if truth else stmt.orelse)
            test = value if not neg else ast.copy_location(ast.UnaryOp(op=ast.Not(), operand=value), value)
            return [ast.copy_location(ast.If(test=test, body=clone(stmt.body), orelse=clone(stmt.orelse)), at)]
        try:
            new_body, term = self.convert([clone(x) for x in body], on_return, True)
            if not term:
                new_body = new_body + on_return(None, stmt)
        except _NoInline:
            new_body = None
        cache[id(call)] = new_body
        return new_body

    def statement_helper_in(self, expr, cls, stack):
        """the expression contains a call to an inlinable helper that is not a single-return expression helper"""
        for c in ast.walk(expr):
            if isinstance(c, ast.Call):
                r = self.resolve(c, cls)
                if r is None:
                    continue
                callee, _ = r
                if callee.key in stack or len(stack) >= MAX_DEPTH or not self.eligible(callee, c):
                    continue
                if self.expression_helper(callee) is None:
                    return True
        return False

    @staticmethod
    def always_returns(stmts):
        if not stmts:
            return False
        last = stmts[-1]
        if isinstance(last, (ast.Return, ast.Raise)):
            return True
        if isinstance(last, ast.If):
            return Flattener.always_returns(last.body) and Flattener.always_returns(last.orelse)
        return False

    def rewrite_own_exprs(self, stmt, cls, stack):
        """apply expression-level inlining to the expressions owned by the statement (not its nested blocks)"""
        for field, value in ast.iter_fields(stmt):
            if field in ('body', 'orelse', 'finalbody', 'handlers'):
                continue
            if isinstance(value, ast.expr):
                setattr(stmt, field, self.rewrite_expr(value, cls, stack))
            elif isinstance(value, list):
                new = []
                for v in value:
                    if isinstance(v, ast.expr):
                        new.append(self.rewrite_expr(v, cls, stack))
                    elif isinstance(v, ast.withitem):
                        v.context_expr = self.rewrite_expr(v.context_expr, cls, stack)
                        new.append(v)
                    elif isinstance(v, ast.keyword):
                        v.value = self.rewrite_expr(v.value, cls, stack)
                        new.append(v)
                    else:
                        new.append(v)
                setattr(stmt, field, new)
        return stmt

    def _forward_generator_temps(self, stmts):
        """tmp = gen(a, b)  ...  for x in tmp: B      ==>      ...  for x in gen(a, b): B
        when `tmp` is used nowhere else and nothing in between stores to a name of the call: creating the generator object
        runs none of its code, so the call can be made where the loop starts"""
        out = list(stmts)
        i = 0
        while i < len(out):
            s = out[i]
            lazy_call = isinstance(s, ast.Assign) and len(s.targets) == 1 and isinstance(s.targets[0], ast.Name) and \
                self._is_generator_call(s.value) and all(_pure(a) for a in s.value.args) and all(_pure(k.value) for k in s.value.keywords)
            # a generator expression evaluates only its outermost iterable when it is created: a plain name there is pure
            lazy_exp = isinstance(s, ast.Assign) and len(s.targets) == 1 and isinstance(s.targets[0], ast.Name) and \
                isinstance(s.value, ast.GeneratorExp) and len(s.value.generators) == 1 and (
                    isinstance(s.value.generators[0].iter, ast.Name) or
                    # ... any outermost iterable when the consumer is the very next statement (nothing runs in between)
                    (i + 1 < len(out) and any(isinstance(n, ast.Name) and n.id == s.targets[0].id for n in ast.walk(out[i + 1]))))
            if lazy_call or lazy_exp:
                tmp = s.targets[0].id
                uses = [n for r_ in out[i + 1:] for n in ast.walk(r_) if isinstance(n, ast.Name) and n.id == tmp]
                names = {n.id for n in ast.walk(s.value) if isinstance(n, ast.Name)}
                for j in range(i + 1, len(out)):
                    f = out[j]
                    # x = list(tmp)  with tmp a generator expression used nowhere else: the list comprehension itself
                    if lazy_exp and isinstance(f, ast.Assign) and isinstance(f.value, ast.Call) and isinstance(f.value.func, ast.Name) and \
                            f.value.func.id == 'list' and len(f.value.args) == 1 and isinstance(f.value.args[0], ast.Name) and \
                            f.value.args[0].id == tmp and len(uses) == 1 and not f.value.keywords:
                        between = out[i + 1:j]
                        if not any(names & _stored_names(b) for b in between):
                            ge = s.value
                            f.value = ast.copy_location(ast.ListComp(elt=ge.elt, generators=ge.generators), f.value)
                            del out[i]
                            i -= 1
                        break
                    if isinstance(f, ast.For) and isinstance(f.iter, ast.Name) and f.iter.id == tmp and len(uses) == 1:
                        between = out[i + 1:j]
                        if not any(names & _stored_names(b) for b in between):
                            f.iter = s.value
                            del out[i]
                            i -= 1
                        break
                    if any(isinstance(n, ast.Name) and n.id == tmp for n in ast.walk(f)):
                        break
            i += 1
        return out

    def rewrite_block(self, stmts, cls, stack):
        stmts = self._forward_generator_temps(stmts)
        out = []
        for s in stmts:
            out.extend(self.inline_stmt(s, cls, stack))
        return out

    def lower_comprehensions(self, stmts):
        """x = [elt for t in it if c]  ==>  x = []; for t in it: if c: x.append(elt)    (exact; done when the
        comprehension filters its input or calls an inlinable statement helper, so that the condition becomes a branch)"""
        out = []
        for s in stmts:
            for field in ('body', 'orelse', 'finalbody'):
                blk = getattr(s, field, None)
                if isinstance(blk, list) and blk and isinstance(blk[0], ast.stmt):
                    setattr(s, field, self.lower_comprehensions(blk))
            if isinstance(s, ast.Try):
                for h in s.handlers:
                    h.body = self.lower_comprehensions(h.body)
            hoisted = self._hoist_generator_consumers(s)
            if hoisted is not None:
                out.extend(hoisted)
                continue
            if isinstance(s, ast.Assign) and len(s.targets) == 1 and isinstance(s.targets[0], ast.Name) and \
                    isinstance(s.value, ast.ListComp) and len(s.value.generators) == 1 and \
                    (self.statement_helper_in(s.value, self.fi.cls, [self.fi.key]) or s.value.generators[0].ifs) and \
                    s.targets[0].id not in {n.id for n in ast.walk(s.value) if isinstance(n, ast.Name)}:
                gen = s.value.generators[0]
                name = s.targets[0].id
                app = ast.Expr(value=ast.Call(func=ast.Attribute(value=ast.Name(id=name, ctx=ast.Load()), attr='append', ctx=ast.Load()),
                                              args=[s.value.elt], keywords=[]))
                body = [ast.copy_location(app, s)]
                for cond in reversed(gen.ifs):
                    body = [ast.copy_location(ast.If(test=cond, body=body, orelse=[]), s)]
                loop = ast.For(target=gen.target, iter=gen.iter, body=body, orelse=[], type_comment=None)
                init = ast.Assign(targets=[ast.Name(id=name, ctx=ast.Store())], value=ast.List(elts=[], ctx=ast.Load()))
                out.append(ast.copy_location(init, s))
                out.append(ast.copy_location(loop, s))
                self.inlined.append(self.fi.key + '::<comprehension>')
                continue
            out.append(s)
        return out

    EAGER_CONSUMERS = ('list', 'tuple', 'sorted', 'join', 'sum', 'dict', 'set', 'frozenset', 'min', 'max', 'extend')

    def _is_generator_call(self, e):
        if not isinstance(e, ast.Call):
            return False
        r = self.resolve(e, self.fi.cls)
        return r is not None and self.is_generator(r[0]) and self.eligible_generator(r[0], e)

    def _hoist_generator_consumers(self, s):
        """a private generator function consumed eagerly somewhere in a simple statement - `list(gen())`, `sep.join(gen())`,
        `[f(x) for x in gen()]`, `sep.join(f(x) for x in gen())` - is consumed by an explicit loop in front of the statement:
            tmp = []; for x in gen(): tmp.append(f(x));  <statement with tmp>
        (the same elements in the same order; every consumer listed takes all elements before doing anything else)"""
        if not isinstance(s, (ast.Assign, ast.AugAssign, ast.Return, ast.Expr)) or getattr(s, 'value', None) is None:
            return None
        found = None
        for n in self.hoistable_nodes(s.value):
            if isinstance(n, ast.Call):
                nm = n.func.attr if isinstance(n.func, ast.Attribute) else (n.func.id if isinstance(n.func, ast.Name) else None)
                if nm in self.EAGER_CONSUMERS and len(n.args) >= 1 and not n.keywords:
                    a = n.args[0]
                    if self._is_generator_call(a):
                        found = (a, None, a, [], None)
                        break
                    if isinstance(a, (ast.GeneratorExp, ast.ListComp)) and len(a.generators) == 1 and self._is_generator_call(a.generators[0].iter):
                        g = a.generators[0]
                        found = (a, g.target, g.iter, g.ifs, a.elt)
                        break
            elif isinstance(n, ast.ListComp) and len(n.generators) == 1 and self._is_generator_call(n.generators[0].iter):
                g = n.generators[0]
                found = (n, g.target, g.iter, g.ifs, n.elt)
                break
        if found is None:
            return None
        node, target, it, ifs, elt = found
        k = next(self.counter)
        tmp = self.fresh('_items', k)
        if target is None:
            ev = self.fresh('_item', k)
            target = ast.Name(id=ev, ctx=ast.Store())
            elt = ast.Name(id=ev, ctx=ast.Load())
        app = ast.Expr(value=ast.Call(func=ast.Attribute(value=ast.Name(id=tmp, ctx=ast.Load()), attr='append', ctx=ast.Load()),
                                      args=[elt], keywords=[]))
        body = [ast.copy_location(app, s)]
        for cond in reversed(ifs):
            body = [ast.copy_location(ast.If(test=cond, body=body, orelse=[]), s)]
        loop = ast.copy_location(ast.For(target=target, iter=it, body=body, orelse=[], type_comment=None), s)
        init = ast.copy_location(ast.Assign(targets=[ast.Name(id=tmp, ctx=ast.Store())], value=ast.List(elts=[], ctx=ast.Load())), s)
        new_s = _ReplaceNode(node, ast.copy_location(ast.Name(id=tmp, ctx=ast.Load()), node)).visit(s)
        ast.fix_missing_locations(loop)
        self.inlined.append(self.fi.key + '::<generator consumer>')
        more = self._hoist_generator_consumers(new_s)
        return [init, loop] + (more if more is not None else [new_s])

    def hoistable_nodes(self, root):
        """sub-expressions in unconditional, eagerly evaluated positions (calls and list comprehensions), innermost first"""
        out = []

        def walk(e):
            if isinstance(e, ast.Call):
                for a in e.args:
                    walk(a)
                for kw in e.keywords:
                    walk(kw.value)
                if isinstance(e.func, ast.Attribute):
                    walk(e.func.value)
                out.append(e)
            elif isinstance(e, ast.ListComp):
                out.append(e)
            elif isinstance(e, ast.BoolOp):
                walk(e.values[0])
            elif isinstance(e, ast.IfExp):
                walk(e.test)
            elif isinstance(e, ast.BinOp):
                walk(e.left)
                walk(e.right)
            elif isinstance(e, ast.UnaryOp):
                walk(e.operand)
            elif isinstance(e, (ast.Tuple, ast.List, ast.Set)):
                for x in e.elts:
                    walk(x)
            elif isinstance(e, ast.Subscript):
                walk(e.value)
            elif isinstance(e, ast.Attribute):
                walk(e.value)
        walk(root)
        return out

    # ---- desugaring (exact rewritings into plain statements, so that rules see branches and loops) ----------------
    def _sink_test_through_choice(self, stmts):
        """if c: x = A else: x = B          if c: x = A; (if T[A]: P else: Q)
           if T[x]: P else: Q         ==>   else: x = B; (if T[B]: P else: Q)
        (the second statement is duplicated into both branches - the same executions - and reads the value just chosen)"""
        out = []
        i = 0
        stmts = list(stmts)
        while i < len(stmts):
            s = stmts[i]
            nxt = stmts[i + 1] if i + 1 < len(stmts) else None
            if isinstance(s, ast.If) and len(s.body) == 1 and len(s.orelse) == 1 and isinstance(nxt, ast.If) and \
                    all(isinstance(b, ast.Assign) and len(b.targets) == 1 and isinstance(b.targets[0], ast.Name) and _pure(b.value)
                        for b in (s.body[0], s.orelse[0])) and s.body[0].targets[0].id == s.orelse[0].targets[0].id:
                x = s.body[0].targets[0].id
                mentions = any(isinstance(n, ast.Name) and n.id == x for n in ast.walk(nxt.test))
                cond_names = {n.id for n in ast.walk(s.test) if isinstance(n, ast.Name)}
                if mentions and x not in cond_names and _pure(nxt.test) is not None:
                    def dup(val, fresh):
                        n2 = nxt if not fresh else clone(nxt)
                        n2.test = _Subst({x: val}, {}).visit(clone(n2.test))
                        return n2
                    new = ast.copy_location(ast.If(test=s.test, body=[s.body[0], dup(s.body[0].value, True)],
                                                   orelse=[s.orelse[0], dup(s.orelse[0].value, True)]), s)
                    ast.fix_missing_locations(new)
                    out.append(new)
                    self.desugared += 1
                    i += 2
                    continue
            out.append(s)
            i += 1
        return out

    def _sink_test_through_flag(self, stmts):
        """if c: S1; flag = True else: S2; flag = False           if c: S1; flag = True; P
           if flag: P else: Q                               ==>   else: S2; flag = False; Q
        (each branch binds the flag to a literal, once, at its own level; the following test is decided per branch)"""
        out = []
        i = 0
        stmts = list(stmts)
        while i < len(stmts):
            s = stmts[i]
            nxt = stmts[i + 1] if i + 1 < len(stmts) else None
            done = False
            if isinstance(s, ast.If) and s.orelse and isinstance(nxt, ast.If):
                t = nxt.test
                neg = False
                if isinstance(t, ast.UnaryOp) and isinstance(t.op, ast.Not):
                    t, neg = t.operand, True
                if isinstance(t, ast.Name):
                    flag = t.id

                    def const_of(branch):
                        vals = [b.value.value for b in branch if isinstance(b, ast.Assign) and len(b.targets) == 1 and
                                isinstance(b.targets[0], ast.Name) and b.targets[0].id == flag and isinstance(b.value, ast.Constant)
                                and isinstance(b.value.value, bool)]
                        stores = [n for b in branch for n in ast.walk(b) if isinstance(n, ast.Name) and n.id == flag and isinstance(n.ctx, ast.Store)]
                        return vals[0] if len(vals) == 1 and len(stores) == 1 else None
                    a, b = const_of(s.body), const_of(s.orelse)
                    if a is not None and b is not None and not _terminates(s.body) and not _terminates(s.orelse):
                        def pick(v):
                            taken = nxt.body if (v != neg) else nxt.orelse
                            return [clone(x) for x in taken]
                        s.body = list(s.body) + pick(a)
                        s.orelse = list(s.orelse) + pick(b)
                        out.append(s)
                        self.desugared += 1
                        i += 2
                        done = True
            if not done:
                out.append(s)
                i += 1
        return out

    def _hoist_branch_closures(self, body):
        """closures defined inside a branch of the function body (left there by an inlined helper) are defined at the top
        instead: a definition only binds a name, and the closure reads its free names when it is called"""
        hoisted = []

        def scan(stmts, top):
            out = []
            for s in stmts:
                if isinstance(s, ast.FunctionDef) and not top and not s.decorator_list and s.name not in self.local_defs and \
                        not any(isinstance(x, (ast.Nonlocal, ast.Global, ast.Yield, ast.YieldFrom)) for x in ast.walk(s)) and \
                        len([n for n in ast.walk(self._node) if isinstance(n, ast.FunctionDef) and n.name == s.name]) <= 1:
                    hoisted.append(s)
                    continue
                if isinstance(s, (ast.If, ast.For, ast.While)):
                    s.body = scan(s.body, False) or [ast.copy_location(ast.Pass(), s)]
                    s.orelse = scan(s.orelse, False)
                out.append(s)
            return out
        new = scan(body, True)
        for h in hoisted:
            sub = FuncInfo(self.fi.module, h, self.fi.cls)
            sub.qualname = self.fi.qualname + '.<locals>.' + h.name
            sub.local_closure = True
            self.local_defs[h.name] = sub
            self.caller_names.add(h.name)
            self.desugared += 1
        k = 1 if (new and isinstance(new[0], ast.Expr) and isinstance(new[0].value, ast.Constant) and isinstance(new[0].value.value, str)) else 0
        return new[:k] + hoisted + new[k:]

    def _sink_tail_through_callable_choice(self, stmts):
        """if c: ...; f = A else: ...; f = B          if c: ...; f = A; REST[f := A]
           REST (calls f)                        ==>   else: ...; f = B; REST[f := B]
        where A and B are functions (closures of this function or module-level functions): the continuation is duplicated
        into both branches - the same executions - so that each call has one callee"""
        stmts = list(stmts)
        for i, s in enumerate(stmts):
            if not (isinstance(s, ast.If) and s.orelse) or i + 1 >= len(stmts):
                continue
            rest = stmts[i + 1:]

            def final_binding(branch):
                # the branch, or the tail of its nested else-chain, ends by binding a name to a function name
                if _terminates(branch):
                    return 'terminates'
                last = branch[-1] if branch else None
                if isinstance(last, ast.If) and last.orelse:
                    a, b = final_binding(last.body), final_binding(last.orelse)
                    picks = [x for x in (a, b) if x != 'terminates']
                    return picks[0] if picks and all(p == picks[0] or p[0] == picks[0][0] for p in picks) and len(picks) == 1 else (picks[0] if len(picks) == 1 else None)
                if isinstance(last, ast.Assign) and len(last.targets) == 1 and isinstance(last.targets[0], ast.Name) and isinstance(last.value, ast.Name):
                    callee = last.value.id
                    if callee in self.local_defs or self.prog.functions.get((self.fi.module.rel, callee)) is not None:
                        return (last.targets[0].id, callee)
                return None
            a, b = final_binding(s.body), final_binding(s.orelse)
            if not (isinstance(a, tuple) and isinstance(b, tuple) and a[0] == b[0] and a[1] != b[1]):
                continue
            f = a[0]
            calls = [c for r_ in rest for c in ast.walk(r_) if isinstance(c, ast.Call) and isinstance(c.func, ast.Name) and c.func.id == f]
            uses = [n for r_ in rest for n in ast.walk(r_) if isinstance(n, ast.Name) and n.id == f]
            if not calls or len(calls) != len(uses) or _contains(rest, (ast.Break, ast.Continue)) and False:
                continue

            def specialised(callee):
                out = []
                for r_ in rest:
                    c2 = clone(r_)
                    for n in ast.walk(c2):
                        if isinstance(n, ast.Call) and isinstance(n.func, ast.Name) and n.func.id == f:
                            n.func = ast.copy_location(ast.Name(id=callee, ctx=ast.Load()), n.func)
                    out.append(c2)
                return out

            def attach(branch, callee):
                if _terminates(branch):
                    return branch
                last = branch[-1]
                if isinstance(last, ast.If) and last.orelse and not (isinstance(last, ast.Assign)):
                    fb_a, fb_b = final_binding(last.body), final_binding(last.orelse)
                    last.body = attach(last.body, callee)
                    last.orelse = attach(last.orelse, callee)
                    return branch
                return list(branch) + specialised(callee)
            s.body = attach(list(s.body), a[1])
            s.orelse = attach(list(s.orelse), b[1])
            self.desugared += 1
            return stmts[:i + 1]
        return stmts

    def _drop_dead_copies(self, node):
        """`x = <name or constant>` whose target is read on no path afterwards does nothing: removed (the branch that hands back a
        sentinel leaves such a binding behind once the test on it has been resolved)"""
        from . import cfg as cfgmod
        from .dataflow import _live_names
        nested = [n for n in ast.walk(node) if isinstance(n, (ast.FunctionDef, ast.Lambda, ast.ClassDef, ast.GeneratorExp, ast.ListComp,
                                                              ast.SetComp, ast.DictComp)) and n is not node]
        captured = {x.id for n in nested for x in ast.walk(n) if isinstance(x, ast.Name)}
        if any(isinstance(n, (ast.Global, ast.Nonlocal)) for n in ast.walk(node)):
            return
        for _ in range(4):
            probe = FuncInfo(self.fi.module, node, self.fi.cls)
            g = cfgmod.build(probe)
            live = _live_names(g)
            if live is None:
                return
            dead = set()
            for n in g.nodes:
                a = n.ast
                if n.kind == 'stmt' and isinstance(a, ast.Assign) and len(a.targets) == 1 and isinstance(a.targets[0], ast.Name) and \
                        isinstance(a.value, (ast.Name, ast.Constant)) and a.targets[0].id not in captured:
                    out_live = set()
                    for s_, lab in g.succ[n.id]:
                        out_live |= live.get(s_, set())
                    if a.targets[0].id not in out_live:
                        dead.add(id(a))
            if not dead:
                return

            class D(ast.NodeTransformer):
                def visit_FunctionDef(self_, n):
                    return self_.generic_visit(n) if n is node else n

                def visit_Assign(self_, n):
                    return None if id(n) in dead else n
            D().visit(node)
            _fill_empty([node])
            ast.fix_missing_locations(node)

    def _coalesce_batons(self, node):
        """Values handed from one inlined helper to the next leave chains of plain copies behind
        (`values = initial; initial__i2 = values; ...; values = initial__i2`).  Two local names related by such a copy are merged
        into one when they do not interfere (the classic coalescing condition): at every binding of one of them that is not a copy
        of the other, the other is dead.  Then at every read the two hold the same value or only one of them is ever read again, so
        renaming both to one name (and dropping the self-copies) changes nothing."""
        from . import cfg as cfgmod
        from .dataflow import _live_names
        params = {a.arg for a in node.args.posonlyargs + node.args.args + node.args.kwonlyargs}
        if node.args.vararg:
            params.add(node.args.vararg.arg)
        if node.args.kwarg:
            params.add(node.args.kwarg.arg)
        nested = [n for n in ast.walk(node) if isinstance(n, (ast.FunctionDef, ast.Lambda, ast.ClassDef, ast.GeneratorExp, ast.ListComp,
                                                              ast.SetComp, ast.DictComp)) and n is not node]
        captured = {x.id for n in nested for x in ast.walk(n) if isinstance(x, ast.Name)}
        if any(isinstance(n, (ast.Global, ast.Nonlocal)) for n in ast.walk(node)):
            return
        for _ in range(8):
            probe = FuncInfo(self.fi.module, node, self.fi.cls)
            g = cfgmod.build(probe)
            live = _live_names(g)
            if live is None:
                return
            # bindings per name: (cfg node, 'copy' source name | None)
            binds = {}
            plain_ok = {}
            for n in g.nodes:
                a = n.ast
                if a is None:
                    continue
                if n.kind == 'stmt' and isinstance(a, ast.Assign) and len(a.targets) == 1 and isinstance(a.targets[0], ast.Name):
                    src = a.value.id if isinstance(a.value, ast.Name) else None
                    binds.setdefault(a.targets[0].id, []).append((n, src))
                    continue
                if n.kind == 'stmt' and isinstance(a, ast.AugAssign) and isinstance(a.target, ast.Name):
                    # x += e binds x (never a copy); it also reads x, which the renaming covers
                    binds.setdefault(a.target.id, []).append((n, None))
                    continue
                stored = set()
                if n.kind == 'for' and isinstance(a, ast.For):
                    stored = {x.id for x in ast.walk(a.target) if isinstance(x, ast.Name)}
                elif n.kind in ('stmt', 'with', 'except', 'handler') or True:
                    if isinstance(a, (ast.For, ast.While, ast.If, ast.Try, ast.With)):
                        stored = set()
                        if isinstance(a, ast.With):
                            stored = {x.id for it in a.items if it.optional_vars is not None for x in ast.walk(it.optional_vars) if isinstance(x, ast.Name)}
                    else:
                        stored = {x.id for x in ast.walk(a) if isinstance(x, ast.Name) and isinstance(x.ctx, (ast.Store, ast.Del))}
                        if isinstance(a, ast.ExceptHandler) and a.name:
                            stored.add(a.name)
                for nm in stored:
                    plain_ok[nm] = False
            for h in ast.walk(node):
                if isinstance(h, ast.ExceptHandler) and h.name:
                    plain_ok[h.name] = False
            done = False
            for y, lst in sorted(binds.items()):
                if done:
                    break
                for n, x in lst:
                    if x is None or x == y or plain_ok.get(x) is False or plain_ok.get(y) is False:
                        continue
                    if x in captured or y in captured or (x not in binds and x not in params):
                        continue
                    if y in params:
                        continue

                    def interferes(a_, b_):
                        # a binding of a_ (not a copy of b_) while b_ is live afterwards
                        for n2, src2 in binds.get(a_, []):
                            if src2 == b_:
                                continue
                            out_live = set()
                            for s_, lab in g.succ[n2.id]:
                                if lab in ('exc', 'raise'):
                                    continue
                                out_live |= live.get(s_, set())
                            if b_ in out_live:
                                return True
                        return False
                    if interferes(x, y) or interferes(y, x):
                        continue
                    if x in params and any(True for _n in binds.get(y, []) if _n[1] != x) and False:
                        continue
                    # y live at entry would read an unbound name: cannot happen in running code
                    # the surviving name: a parameter, else a name of the function as written, else the source of the copy
                    def rank(nm):
                        return (0 if nm in params else 1 if nm in self.caller_names else 2 if '__' not in nm else 3)
                    keep, drop = (x, y) if rank(x) <= rank(y) else (y, x)
                    if drop in params:
                        continue

                    class Ren(ast.NodeTransformer):
                        def visit_Name(self_, nd):
                            if nd.id == drop:
                                return ast.copy_location(ast.Name(id=keep, ctx=nd.ctx), nd)
                            return nd

                        def visit_FunctionDef(self_, nd):
                            return nd if nd is not node else self_.generic_visit(nd)

                        def visit_Assign(self_, nd):
                            self_.generic_visit(nd)
                            if len(nd.targets) == 1 and isinstance(nd.targets[0], ast.Name) and isinstance(nd.value, ast.Name) and \
                                    nd.targets[0].id == nd.value.id:
                                return None
                            return nd
                    Ren().visit(node)
                    _fill_empty([node])
                    ast.fix_missing_locations(node)
                    done = True
                    break
            if not done:
                return

    def _scalarise_tuples(self, node):
        """A local name that is only ever bound to tuple displays of one length and only ever read item by item (`v[0]`, `a, b = v`)
        is replaced by one local per item:  v = (e0, e1) ==> v__0 = e0; v__1 = e1 ;  v[1] ==> v__1 ;  a, b = v ==> a, b = (v__0, v__1).
        Exact: the items are evaluated in the same order, a tuple cannot change, and nothing else can see the tuple object."""
        params = {a.arg for a in node.args.posonlyargs + node.args.args + node.args.kwonlyargs}
        parents = {}
        for n in ast.walk(node):
            for c in ast.iter_child_nodes(n):
                parents[c] = n
        nested = [n for n in ast.walk(node) if isinstance(n, (ast.FunctionDef, ast.Lambda, ast.ClassDef)) and n is not node]
        captured = {x.id for n in nested for x in ast.walk(n) if isinstance(x, ast.Name)}
        stores, loads = {}, {}
        for n in ast.walk(node):
            if isinstance(n, ast.Name):
                (stores if isinstance(n.ctx, (ast.Store, ast.Del)) else loads).setdefault(n.id, []).append(n)
        changed = False
        for v, sts in sorted(stores.items()):
            if v in params or v in captured or v not in loads:
                continue
            arity = None
            ok = True
            for st in sts:
                p = parents.get(st)
                if not (isinstance(p, ast.Assign) and len(p.targets) == 1 and p.targets[0] is st and isinstance(p.value, ast.Tuple) and
                        not any(isinstance(e, ast.Starred) for e in p.value.elts)):
                    ok = False
                    break
                if any(isinstance(x, ast.Name) and x.id == v for x in ast.walk(p.value)):
                    ok = False
                    break
                if arity is None:
                    arity = len(p.value.elts)
                elif arity != len(p.value.elts):
                    ok = False
                    break
            if not ok or not arity:
                continue
            for ld in loads[v]:
                p = parents.get(ld)
                if isinstance(p, ast.Subscript) and p.value is ld and isinstance(p.ctx, ast.Load):
                    ix = p.slice
                    if isinstance(ix, ast.UnaryOp) and isinstance(ix.op, ast.USub) and isinstance(ix.operand, ast.Constant) and \
                            isinstance(ix.operand.value, int) and 1 <= ix.operand.value <= arity:
                        continue
                    if isinstance(ix, ast.Constant) and isinstance(ix.value, int) and not isinstance(ix.value, bool) and 0 <= ix.value < arity:
                        continue
                    ok = False
                    break
                if isinstance(p, ast.Assign) and p.value is ld and len(p.targets) == 1 and isinstance(p.targets[0], (ast.Tuple, ast.List)) and \
                        len(p.targets[0].elts) == arity and not any(isinstance(e, ast.Starred) for e in p.targets[0].elts):
                    continue
                ok = False
                break
            if not ok:
                continue
            names = ['%s__%d' % (v, i) for i in range(arity)]
            if any(nm in stores or nm in loads for nm in names):
                continue

            class R(ast.NodeTransformer):
                def visit_FunctionDef(self_, n):
                    return self_.generic_visit(n) if n is node else n

                def visit_Assign(self_, n):
                    if len(n.targets) == 1 and isinstance(n.targets[0], ast.Name) and n.targets[0].id == v and isinstance(n.value, ast.Tuple):
                        self_.generic_visit(n.value)
                        return [ast.copy_location(ast.Assign(targets=[ast.Name(id=nm, ctx=ast.Store())], value=e), n)
                                for nm, e in zip(names, n.value.elts)]
                    self_.generic_visit(n)
                    if isinstance(n.value, ast.Name) and n.value.id == v:
                        n.value = ast.copy_location(ast.Tuple(elts=[ast.Name(id=nm, ctx=ast.Load()) for nm in names], ctx=ast.Load()), n.value)
                    return n

                def visit_Subscript(self_, n):
                    if isinstance(n.value, ast.Name) and n.value.id == v and isinstance(n.ctx, ast.Load):
                        ix = n.slice
                        k = ix.value if isinstance(ix, ast.Constant) else arity - ix.operand.value
                        return ast.copy_location(ast.Name(id=names[k], ctx=ast.Load()), n)
                    return self_.generic_visit(n)
            R().visit(node)
            ast.fix_missing_locations(node)
            self.desugared += 1
            changed = True
            break          # positions changed: one name per call, the fixpoint loop comes back
        return changed

    def _record_classes(self):
        """NamedTuple classes of the package: name -> [(field, default or None)]"""
        cached = getattr(self.prog, '_record_classes', None)
        if cached is None:
            cached = {}
            for rel, m in self.prog.modules.items():
                for st in m.tree.body:
                    if isinstance(st, ast.ClassDef) and len(st.bases) == 1 and not st.decorator_list:
                        b = st.bases[0]
                        nm = b.attr if isinstance(b, ast.Attribute) else getattr(b, 'id', '')
                        if nm in ('NamedTuple', '_NamedTuple'):
                            fields = [(x.target.id, x.value) for x in st.body if isinstance(x, ast.AnnAssign) and isinstance(x.target, ast.Name)]
                            others = [x for x in st.body if not isinstance(x, (ast.AnnAssign, ast.Pass)) and
                                      not (isinstance(x, ast.Expr) and isinstance(x.value, ast.Constant))]
                            if fields and not others:
                                cached[st.name] = None if st.name in cached else fields
            cached = {k: v for k, v in cached.items() if v}
            self.prog._record_classes = cached
        return cached

    def _records_to_tuples_locally(self, node):
        """A local only ever bound to constructor calls of one NamedTuple class of the package and only read as `v.field`, `v[i]` or
        unpacked whole holds a tuple whose items are the fields: the constructor calls become tuple displays (arguments in field
        order; keyword arguments only when they are names / constants) and `v.field` becomes `v[i]` - `_scalarise_tuples` then
        replaces the tuple by one local per item.  Local to the variable, so field names need not be unique in the package."""
        recs = self._record_classes()
        if not recs:
            return False
        params = {a.arg for a in node.args.posonlyargs + node.args.args + node.args.kwonlyargs}
        parents = {}
        for n in ast.walk(node):
            for c in ast.iter_child_nodes(n):
                parents[c] = n
        nested = [n for n in ast.walk(node) if isinstance(n, (ast.FunctionDef, ast.Lambda, ast.ClassDef)) and n is not node]
        captured = {x.id for n in nested for x in ast.walk(n) if isinstance(x, ast.Name)}
        stores, loads = {}, {}
        for n in ast.walk(node):
            if isinstance(n, ast.Name):
                (stores if isinstance(n.ctx, (ast.Store, ast.Del)) else loads).setdefault(n.id, []).append(n)

        def ctor(e):
            if not isinstance(e, ast.Call):
                return None
            nm = e.func.id if isinstance(e.func, ast.Name) else (e.func.attr if isinstance(e.func, ast.Attribute) else None)
            if nm not in recs:
                return None
            names = [f for f, _ in recs[nm]]
            if any(isinstance(a, ast.Starred) for a in e.args) or len(e.args) > len(names) or \
                    any(k.arg is None or k.arg not in names or not isinstance(k.value, (ast.Name, ast.Constant)) for k in e.keywords):
                return None
            return nm
        for v, sts in sorted(stores.items()):
            if v in params or v in captured or v not in loads:
                continue
            cls = None
            ok = True
            for st in sts:
                p = parents.get(st)
                c = ctor(p.value) if isinstance(p, ast.Assign) and len(p.targets) == 1 and p.targets[0] is st else None
                if c is None or (cls is not None and c != cls):
                    ok = False
                    break
                cls = c
            if not ok or cls is None:
                continue
            fields = recs[cls]
            names = [f for f, _ in fields]
            for ld in loads[v]:
                p = parents.get(ld)
                if isinstance(p, ast.Attribute) and p.value is ld and isinstance(p.ctx, ast.Load) and p.attr in names:
                    continue
                if isinstance(p, ast.Subscript) and p.value is ld and isinstance(p.slice, ast.Constant) and isinstance(p.slice.value, int):
                    continue
                if isinstance(p, ast.Assign) and p.value is ld and len(p.targets) == 1 and isinstance(p.targets[0], (ast.Tuple, ast.List)):
                    continue
                ok = False
                break
            if not ok:
                continue

            class R(ast.NodeTransformer):
                def visit_FunctionDef(self_, n):
                    return self_.generic_visit(n) if n is node else n

                def visit_Assign(self_, n):
                    self_.generic_visit(n)
                    if len(n.targets) == 1 and isinstance(n.targets[0], ast.Name) and n.targets[0].id == v and isinstance(n.value, ast.Call):
                        vals = list(n.value.args) + [None] * (len(fields) - len(n.value.args))
                        for k in n.value.keywords:
                            vals[names.index(k.arg)] = k.value
                        for i_, (f_, d_) in enumerate(fields):
                            if vals[i_] is None:
                                vals[i_] = clone(d_) if d_ is not None else ast.Constant(value=None)
                        n.value = ast.copy_location(ast.Tuple(elts=vals, ctx=ast.Load()), n.value)
                    return n

                def visit_Attribute(self_, n):
                    if isinstance(n.value, ast.Name) and n.value.id == v and isinstance(n.ctx, ast.Load) and n.attr in names:
                        return ast.copy_location(ast.Subscript(value=n.value, slice=ast.Constant(value=names.index(n.attr)), ctx=ast.Load()), n)
                    return self_.generic_visit(n)
            # a missing field without default would have raised TypeError at run time: leave such code alone
            bad = False
            for st in sts:
                call = parents[st].value
                given = len(call.args) + len(call.keywords)
                if given < len([1 for _f, d_ in fields if d_ is None]):
                    bad = True
            if bad:
                continue
            R().visit(node)
            ast.fix_missing_locations(node)
            self.desugared += 1
            return True
        return False

    def _scalarise_dicts(self, node):
        """A local name bound once to a dict display with literal string keys and used only as `d['key']` (read or store) is a bundle
        of locals handed from one extracted step to the next:  d = {'a': e0, 'b': e1}  ==>  d__a = e0; d__b = e1 ;  d['a']  ==>  d__a.
        Exact: the values are evaluated in the same order and nothing else can see the dict object (every use is a literal-key
        subscript; keys read are keys of the display or keys stored before - a read of any other key is left alone, which blocks
        the rewriting)."""
        params = {a.arg for a in node.args.posonlyargs + node.args.args + node.args.kwonlyargs}
        parents = {}
        for n in ast.walk(node):
            for c in ast.iter_child_nodes(n):
                parents[c] = n
        nested = [n for n in ast.walk(node) if isinstance(n, (ast.FunctionDef, ast.Lambda, ast.ClassDef)) and n is not node]
        captured = {x.id for n in nested for x in ast.walk(n) if isinstance(x, ast.Name)}
        stores, loads = {}, {}
        for n in ast.walk(node):
            if isinstance(n, ast.Name):
                (stores if isinstance(n.ctx, (ast.Store, ast.Del)) else loads).setdefault(n.id, []).append(n)
        for v, sts in sorted(stores.items()):
            if v in params or v in captured or v not in loads or len(sts) != 1:
                continue
            p = parents.get(sts[0])
            if not (isinstance(p, ast.Assign) and len(p.targets) == 1 and p.targets[0] is sts[0] and isinstance(p.value, ast.Dict) and p.value.keys and
                    all(isinstance(k, ast.Constant) and isinstance(k.value, str) and k.value.isidentifier() for k in p.value.keys)):
                continue
            # the binding must not sit in a loop or a branch (one dict object for the whole function)
            if parents.get(p) is not node:
                continue
            keys = [k.value for k in p.value.keys]
            if len(set(keys)) != len(keys) or any(isinstance(x, ast.Name) and x.id == v for x in ast.walk(p.value)):
                continue
            ok = True
            for ld in loads[v]:
                q = parents.get(ld)
                if not (isinstance(q, ast.Subscript) and q.value is ld and isinstance(q.slice, ast.Constant) and isinstance(q.slice.value, str)
                        and q.slice.value in keys and isinstance(q.ctx, (ast.Load, ast.Store))):
                    ok = False
                    break
            if not ok:
                continue
            names = {k: '%s__%s' % (v, k) for k in keys}
            if any(nm in stores or nm in loads for nm in names.values()):
                continue

            class R(ast.NodeTransformer):
                def visit_FunctionDef(self_, n):
                    return self_.generic_visit(n) if n is node else n

                def visit_Assign(self_, n):
                    if n is p:
                        self_.generic_visit(n.value)
                        return [ast.copy_location(ast.Assign(targets=[ast.Name(id=names[k.value], ctx=ast.Store())], value=e), n)
                                for k, e in zip(n.value.keys, n.value.values)]
                    return self_.generic_visit(n)

                def visit_Subscript(self_, n):
                    if isinstance(n.value, ast.Name) and n.value.id == v:
                        return ast.copy_location(ast.Name(id=names[n.slice.value], ctx=n.ctx), n)
                    return self_.generic_visit(n)
            R().visit(node)
            ast.fix_missing_locations(node)
            self.desugared += 1
            return True
        return False

    def _fold_sentinel_tests(self, node):
        """`x is _KEEP` where _KEEP is a private module-level sentinel (`_KEEP = object()`, bound once, only ever compared with
        `is` or handed back as a result - never passed as an argument or stored) and x is something else than that name: the
        sentinel can only come out of the package's own code that returns it, and after inlining that code is in view as the other
        branch of the choice - a parameter or a looked-up value is not the sentinel.  (Assumption stated in DESIGN.md: callers do not
        pass a private sentinel of the package in.)"""
        cache = self.prog.__dict__.setdefault('_sentinels', None)
        if cache is None:
            cache = set()
            for rel, m in self.prog.modules.items():
                for st in m.tree.body:
                    if isinstance(st, ast.Assign) and len(st.targets) == 1 and isinstance(st.targets[0], ast.Name) and \
                            st.targets[0].id.startswith('_') and isinstance(st.value, ast.Call) and isinstance(st.value.func, ast.Name) and \
                            st.value.func.id == 'object' and not st.value.args:
                        nm = st.targets[0].id
                        ok = True
                        for n in ast.walk(m.tree):
                            if isinstance(n, ast.Name) and n.id == nm and n is not st.targets[0]:
                                if isinstance(n.ctx, ast.Store):
                                    ok = False
                                p = getattr(n, '_parent', None)
                                if isinstance(p, ast.Call) and n in p.args or isinstance(p, ast.keyword):
                                    ok = False
                                if isinstance(p, (ast.List, ast.Tuple, ast.Dict, ast.Set, ast.Subscript, ast.Attribute)):
                                    ok = False
                        if ok:
                            cache.add(nm)
            self.prog._sentinels = cache
        if not cache:
            return

        params = {a.arg for a in node.args.posonlyargs + node.args.args + node.args.kwonlyargs}
        rebound = _stored_names(node)

        def not_the_sentinel(b_):
            # a parameter that is never re-bound, a constant, an item looked up in a caller's mapping
            if isinstance(b_, ast.Constant):
                return True
            if isinstance(b_, ast.Name):
                return b_.id in params and b_.id not in rebound
            if isinstance(b_, ast.Subscript):
                return isinstance(b_.value, ast.Name) and b_.value.id in params and b_.value.id not in rebound
            return False

        class F(ast.NodeTransformer):
            def visit_Compare(self_, n):
                self_.generic_visit(n)
                if len(n.ops) == 1 and isinstance(n.ops[0], (ast.Is, ast.IsNot)):
                    l_, r_ = n.left, n.comparators[0]
                    for a_, b_ in ((l_, r_), (r_, l_)):
                        if isinstance(a_, ast.Name) and a_.id in cache and not_the_sentinel(b_):
                            return ast.copy_location(ast.Constant(value=isinstance(n.ops[0], ast.IsNot)), n)
                return n
        F().visit(node)

    def _fold_sequence_markers(self, node):
        """`__sequence__(x)` (left by the normal form of `match x: case [..]`) is True when every binding of the local x is a
        list / tuple display, a list comprehension or a call that returns a list"""
        marks = [n for n in ast.walk(node) if isinstance(n, ast.Call) and isinstance(n.func, ast.Name) and n.func.id == '__sequence__'
                 and len(n.args) == 1 and isinstance(n.args[0], ast.Name)]
        if not marks:
            return
        params = {a.arg for a in node.args.posonlyargs + node.args.args + node.args.kwonlyargs}

        def listy(e):
            if isinstance(e, (ast.List, ast.Tuple, ast.ListComp)):
                return True
            if isinstance(e, ast.Call):
                if isinstance(e.func, ast.Name) and e.func.id in ('list', 'tuple', 'sorted'):
                    return True
                if isinstance(e.func, ast.Attribute) and e.func.attr in ('split', 'rsplit', 'splitlines', 'partition', 'rpartition'):
                    return True
            return False
        known = {}
        for m in marks:
            x = m.args[0].id
            if x in known:
                continue
            ok = x not in params
            for n in ast.walk(node):
                if isinstance(n, ast.Name) and n.id == x and isinstance(n.ctx, (ast.Store, ast.Del)):
                    p = getattr(n, '_parent', None)
                    if not (isinstance(p, ast.Assign) and len(p.targets) == 1 and p.targets[0] is n and listy(p.value)):
                        ok = False
            known[x] = ok

        class F(ast.NodeTransformer):
            def visit_Call(self_, n):
                if n in marks and known.get(n.args[0].id):
                    return ast.copy_location(ast.Constant(value=True), n)
                return self_.generic_visit(n)

            def visit_BoolOp(self_, n):
                self_.generic_visit(n)
                if isinstance(n.op, ast.And):
                    vals = [v for v in n.values if not (isinstance(v, ast.Constant) and v.value is True)]
                    if len(vals) != len(n.values):
                        if not vals:
                            return ast.copy_location(ast.Constant(value=True), n)
                        return vals[0] if len(vals) == 1 else ast.copy_location(ast.BoolOp(op=ast.And(), values=vals), n)
                return n
        for n in ast.walk(node):
            for c in ast.iter_child_nodes(n):
                c._parent = n
        F().visit(node)
        ast.fix_missing_locations(node)

    def _split_tuple_copies(self, stmts):
        """t = (a, b); x, y = t   ==>   x, y = (a, b)      (t used nowhere else)
           x, y = (a, b)           ==>   x = a; y = b       (a, b names / constants none of which is x or y)"""
        out = []
        i = 0
        stmts = list(stmts)
        while i < len(stmts):
            s = stmts[i]
            nxt = stmts[i + 1] if i + 1 < len(stmts) else None
            if isinstance(s, ast.Assign) and len(s.targets) == 1 and isinstance(s.targets[0], ast.Name) and isinstance(s.value, ast.Tuple) and \
                    isinstance(nxt, ast.Assign) and len(nxt.targets) == 1 and isinstance(nxt.targets[0], ast.Tuple) and \
                    isinstance(nxt.value, ast.Name) and nxt.value.id == s.targets[0].id and len(nxt.targets[0].elts) == len(s.value.elts):
                t = s.targets[0].id
                uses = [n for n in ast.walk(self._node) if isinstance(n, ast.Name) and n.id == t]
                if len(uses) <= 2 or not any(n is not s.targets[0] and n is not nxt.value for n in uses):
                    nxt.value = s.value
                    s = nxt
                    i += 1
            if isinstance(s, ast.Assign) and len(s.targets) == 1 and isinstance(s.targets[0], ast.Tuple) and isinstance(s.value, ast.Tuple) and \
                    len(s.targets[0].elts) == len(s.value.elts) and \
                    all(isinstance(t_, ast.Name) or (isinstance(t_, ast.Attribute) and isinstance(t_.value, ast.Name) and t_.value.id == 'self')
                        for t_ in s.targets[0].elts) and \
                    all(isinstance(v_, (ast.Name, ast.Constant)) or (isinstance(v_, (ast.List, ast.Tuple)) and not v_.elts) or
                        (isinstance(v_, ast.Dict) and not v_.keys) for v_ in s.value.elts) and \
                    any(isinstance(t_, ast.Attribute) for t_ in s.targets[0].elts):
                # self.a, x = (p, q): the right-hand side is made of names / constants, none of them a target: item by item
                tn_ = {t_.id for t_ in s.targets[0].elts if isinstance(t_, ast.Name)} | {'self'}
                vn_ = {v_.id for v_ in s.value.elts if isinstance(v_, ast.Name)}
                if not (tn_ & vn_):
                    for t_, v_ in zip(s.targets[0].elts, s.value.elts):
                        out.append(ast.copy_location(ast.Assign(targets=[t_], value=v_), s))
                    self.desugared += 1
                    i += 1
                    continue
            if isinstance(s, ast.Assign) and len(s.targets) == 1 and isinstance(s.targets[0], ast.Tuple) and isinstance(s.value, ast.Tuple) and \
                    len(s.targets[0].elts) == len(s.value.elts) and all(isinstance(t_, ast.Name) for t_ in s.targets[0].elts) and \
                    all(_pure(v_) for v_ in s.value.elts):
                tn = {t_.id for t_ in s.targets[0].elts}
                vn = {n_.id for v_ in s.value.elts for n_ in ast.walk(v_) if isinstance(n_, ast.Name)}
                if not (tn & vn) and len(tn) == len(s.targets[0].elts):
                    for t_, v_ in zip(s.targets[0].elts, s.value.elts):
                        out.append(ast.copy_location(ast.Assign(targets=[t_], value=v_), s))
                    self.desugared += 1
                    i += 1
                    continue
            out.append(s)
            i += 1
        return out

    def _coalesce_copies(self, stmts):
        """x__iN = ...; ...(x__iN updated)...; y = x__iN      ==>      y = ...; ...(y updated)...
        for a temporary of the inliner that is used nowhere after the copy, when y is not mentioned between the first store to
        the temporary and the copy (so giving the temporary the name y changes nothing that is read)"""
        import re as _re
        stmts = list(stmts)
        j = 0
        while j < len(stmts):
            s = stmts[j]
            if isinstance(s, ast.Assign) and len(s.targets) == 1 and isinstance(s.targets[0], ast.Name) and isinstance(s.value, ast.Name) and \
                    _re.search(r'__i\d+_*$', s.value.id) and s.value.id != s.targets[0].id:
                x, y = s.value.id, s.targets[0].id
                first = None
                for i in range(j):
                    if any(isinstance(n, ast.Name) and n.id == x and isinstance(n.ctx, ast.Store) for n in ast.walk(stmts[i])):
                        first = i
                        break
                if first is not None:
                    region = stmts[first:j]
                    region_ids = {id(n) for r_ in region for n in ast.walk(r_)} | {id(s.value)}
                    all_x = [n for n in ast.walk(self._node) if isinstance(n, ast.Name) and n.id == x]
                    y_inside = any(isinstance(n, ast.Name) and n.id == y for r_ in region for n in ast.walk(r_))
                    # (nodes of this block may not be attached to the function yet: then only the region is known to mention x)
                    outside = [n for n in all_x if id(n) not in region_ids]
                    later = any(isinstance(n, ast.Name) and n.id == x for r_ in stmts[j + 1:] for n in ast.walk(r_))
                    if not y_inside and not outside and not later:
                        for r_ in region:
                            for n in ast.walk(r_):
                                if isinstance(n, ast.Name) and n.id == x:
                                    n.id = y
                        del stmts[j]
                        self.desugared += 1
                        continue
            j += 1
        return stmts

    def desugar(self, stmts):
        stmts = self._sink_test_through_choice(stmts)
        stmts = self._sink_test_through_flag(stmts)
        stmts = self._sink_tail_through_callable_choice(stmts)
        stmts = self._split_tuple_copies(stmts)
        stmts = self._coalesce_copies(stmts)
        out = []
        for s in stmts:
            for field in ('body', 'orelse', 'finalbody'):
                blk = getattr(s, field, None)
                if isinstance(blk, list) and blk and isinstance(blk[0], ast.stmt):
                    setattr(s, field, self.desugar(blk))
            if isinstance(s, ast.Try):
                for h in s.handlers:
                    h.body = self.desugar(h.body)
            out.extend(self.desugar_stmt(s))
        return out

    def _only_def(self, name):
        """the one assignment that binds the name in the function (any number of reads)"""
        stores = [n for n in ast.walk(self._node) if isinstance(n, ast.Name) and n.id == name and isinstance(n.ctx, (ast.Store, ast.Del))]
        defs = [n for n in ast.walk(self._node) if isinstance(n, ast.Assign) and len(n.targets) == 1 and
                isinstance(n.targets[0], ast.Name) and n.targets[0].id == name]
        params = {a.arg for a in self._node.args.args + self._node.args.posonlyargs + self._node.args.kwonlyargs}
        return defs[0] if len(defs) == 1 and len(stores) == 1 and name not in params else None

    def _single_def(self, name):
        defs = [n for n in ast.walk(self._node) if isinstance(n, ast.Assign) and len(n.targets) == 1 and
                isinstance(n.targets[0], ast.Name) and n.targets[0].id == name]
        uses = [n for n in ast.walk(self._node) if isinstance(n, ast.Name) and n.id == name and isinstance(n.ctx, ast.Load)]
        return defs[0] if len(defs) == 1 and len(uses) == 1 else None

    def _anyall(self, call):
        """(kind, generator) for any(<genexp>) / all(<genexp>) with one generator"""
        if isinstance(call, ast.Call) and isinstance(call.func, ast.Name) and call.func.id in ('any', 'all') and len(call.args) == 1 \
                and not call.keywords and isinstance(call.args[0], (ast.GeneratorExp, ast.ListComp)) and len(call.args[0].generators) == 1:
            return call.func.id, call.args[0]
        return None

    def _anyall_loop(self, kind, gen, name, at):
        """name = any(elt for t in it if c)  ==>  name = False; for t in it: if c: if elt: name = True; break   (all: dually)"""
        g0 = gen.generators[0]
        hit = ast.copy_location(ast.Assign(targets=[ast.Name(id=name, ctx=ast.Store())], value=ast.Constant(value=(kind == 'any'))), at)
        test = gen.elt if kind == 'any' else ast.copy_location(ast.UnaryOp(op=ast.Not(), operand=gen.elt), gen.elt)
        body = [ast.copy_location(ast.If(test=test, body=[hit, ast.copy_location(ast.Break(), at)], orelse=[]), at)]
        for cond in reversed(g0.ifs):
            body = [ast.copy_location(ast.If(test=cond, body=body, orelse=[]), at)]
        loop = ast.For(target=g0.target, iter=g0.iter, body=body, orelse=[], type_comment=None)
        init = ast.Assign(targets=[ast.Name(id=name, ctx=ast.Store())], value=ast.Constant(value=(kind != 'any')))
        self.desugared += 1
        return [ast.copy_location(init, at), ast.copy_location(loop, at)]

    def _dict_literal(self, e):
        """the dict display a table expression denotes: a local name bound once to it, or self.X / cls.X bound once in the class"""
        if isinstance(e, ast.Dict):
            return e
        if isinstance(e, ast.Name):
            d = self._only_def(e.id)
            return d.value if d is not None and isinstance(d.value, ast.Dict) else None
        if isinstance(e, ast.Attribute) and isinstance(e.value, ast.Name) and e.value.id in ('self', 'cls'):
            lit = self._class_literal(e.attr)
            return lit if isinstance(lit, ast.Dict) else None
        return None

    def _desugar_dispatch(self, stmts, fn):
        """h = TABLE.get(key);  if h is not None: ...h(args)... else: REST
             ==>   if key == k1: ...f1(args)...  elif key == k2: ...f2(args)...  else: REST
        for a TABLE that is a dict display with distinct constant keys whose values are methods / functions (a value
        stored as a plain class-level function and called `h(self, x)` is the method call `self.f(x)`)."""
        out = []
        i = 0
        stmts = list(stmts)
        while i < len(stmts):
            s = stmts[i]
            for field in ('body', 'orelse', 'finalbody'):
                blk = getattr(s, field, None)
                if isinstance(blk, list) and blk and isinstance(blk[0], ast.stmt) and not isinstance(s, (ast.FunctionDef, ast.ClassDef)):
                    setattr(s, field, self._desugar_dispatch(blk, fn))
            if isinstance(s, ast.Try):
                for h_ in s.handlers:
                    h_.body = self._desugar_dispatch(h_.body, fn)
            done = False
            if isinstance(s, ast.Assign) and len(s.targets) == 1 and isinstance(s.targets[0], ast.Name) and isinstance(s.value, ast.Call) and \
                    isinstance(s.value.func, ast.Attribute) and s.value.func.attr == 'get' and 1 <= len(s.value.args) <= 2 and not s.value.keywords \
                    and i + 1 < len(stmts) and isinstance(stmts[i + 1], ast.If):
                h = s.targets[0].id
                key = s.value.args[0]
                default_none = len(s.value.args) == 1 or (isinstance(s.value.args[1], ast.Constant) and s.value.args[1].value is None)
                table = self._dict_literal(s.value.func.value)
                nxt = stmts[i + 1]
                t = nxt.test
                neg = False
                if isinstance(t, ast.UnaryOp) and isinstance(t.op, ast.Not):
                    t, neg = t.operand, True
                found_branch = None
                if isinstance(t, ast.Name) and t.id == h:
                    found_branch = 'orelse' if neg else 'body'
                elif isinstance(t, ast.Compare) and len(t.ops) == 1 and isinstance(t.left, ast.Name) and t.left.id == h and \
                        isinstance(t.comparators[0], ast.Constant) and t.comparators[0].value is None:
                    is_none = isinstance(t.ops[0], (ast.Is, ast.Eq)) != neg
                    found_branch = 'orelse' if is_none else 'body'
                uses = [n for n in ast.walk(fn) if isinstance(n, ast.Name) and n.id == h and n is not s.targets[0]]
                inside = [n for n in ast.walk(nxt) if isinstance(n, ast.Name) and n.id == h]
                if table is not None and default_none and _pure(key) and found_branch is not None and len(uses) == len(inside) and table.keys and \
                        all(isinstance(k, ast.Constant) and isinstance(k.value, (str, int)) for k in table.keys) and \
                        len({k.value for k in table.keys}) == len(table.keys) and \
                        all(isinstance(v, (ast.Name, ast.Attribute)) for v in table.values):
                    hit = getattr(nxt, found_branch)
                    miss = nxt.orelse if found_branch == 'body' else nxt.body
                    # inside the hit branch h is only called
                    calls = [c for b in hit for c in ast.walk(b) if isinstance(c, ast.Call) and isinstance(c.func, ast.Name) and c.func.id == h]
                    hit_uses = [n for b in hit for n in ast.walk(b) if isinstance(n, ast.Name) and n.id == h]
                    miss_uses = [n for b in miss for n in ast.walk(b) if isinstance(n, ast.Name) and n.id == h]
                    ok = len(calls) == len(hit_uses) and not miss_uses and calls
                    chain = None
                    if ok:
                        branches = []
                        for k, v in zip(table.keys, table.values):
                            body = [clone(b) for b in hit]
                            good = True
                            for b in body:
                                for c in ast.walk(b):
                                    if isinstance(c, ast.Call) and isinstance(c.func, ast.Name) and c.func.id == h:
                                        if isinstance(v, ast.Attribute):
                                            c.func = clone(v)
                                        elif c.args and isinstance(c.args[0], ast.Name) and c.args[0].id == 'self' and self.fi.cls is not None and \
                                                self.prog.resolve_method(self.fi.cls, v.id) is not None:
                                            c.func = ast.copy_location(ast.Attribute(value=ast.Name(id='self', ctx=ast.Load()), attr=v.id, ctx=ast.Load()), c)
                                            c.args = c.args[1:]
                                        elif self.prog.functions.get((self.fi.module.rel, v.id)) is not None:
                                            c.func = ast.copy_location(ast.Name(id=v.id, ctx=ast.Load()), c)
                                        else:
                                            good = False
                            if not good:
                                ok = False
                                break
                            test = ast.Compare(left=clone(key), ops=[ast.Eq()], comparators=[ast.Constant(value=k.value)])
                            branches.append((test, body))
                        if ok:
                            tail = [clone(b) for b in miss]
                            for test, body in reversed(branches):
                                node = ast.If(test=test, body=body or [ast.Pass()], orelse=tail)
                                ast.copy_location(node, nxt)
                                ast.fix_missing_locations(node)
                                tail = [node]
                            out.extend(tail)
                            self.desugared += 1
                            i += 2
                            done = True
            if not done:
                out.append(s)
                i += 1
        return out

    def _desugar_partials(self, fn):
        """p = functools.partial(F, a, k=v)  ...  p(x, j=w)      ==>      ...  F(a, x, k=v, j=w)
        when p is bound once, a and v are names / constants that are not re-bound, and p is only ever called"""
        changed = False
        for d in [n for n in ast.walk(fn) if isinstance(n, ast.Assign) and len(n.targets) == 1 and isinstance(n.targets[0], ast.Name)]:
            v = d.value
            if not (isinstance(v, ast.Call) and ((isinstance(v.func, ast.Attribute) and v.func.attr == 'partial') or
                                                 (isinstance(v.func, ast.Name) and v.func.id == 'partial')) and v.args):
                continue
            name = d.targets[0].id
            if len([n for n in ast.walk(fn) if isinstance(n, ast.Name) and n.id == name and isinstance(n.ctx, ast.Store)]) != 1:
                continue
            if not all(_pure(a) for a in v.args) or not all(_pure(k.value) for k in v.keywords) or any(k.arg is None for k in v.keywords):
                continue
            stored = _stored_names(fn) if False else {n.id for n in ast.walk(fn) if isinstance(n, ast.Name) and isinstance(n.ctx, ast.Store)}
            frozen = {n.id for a in list(v.args[1:]) + [k.value for k in v.keywords] for n in ast.walk(a) if isinstance(n, ast.Name)}
            counts = {}
            for n in ast.walk(fn):
                if isinstance(n, ast.Name) and isinstance(n.ctx, ast.Store):
                    counts[n.id] = counts.get(n.id, 0) + 1
            uses = [n for n in ast.walk(fn) if isinstance(n, ast.Name) and n.id == name and isinstance(n.ctx, ast.Load)]
            calls = [c for c in ast.walk(fn) if isinstance(c, ast.Call) and isinstance(c.func, ast.Name) and c.func.id == name]
            if not calls or len(uses) != len(calls):
                continue
            if any(counts.get(nm, 0) > 1 for nm in frozen):
                # re-bound somewhere: fine when every call follows the binding in the same statement list and nothing in
                # between (or around the calls) stores to those names
                block = None
                for holder in ast.walk(fn):
                    for field in ('body', 'orelse', 'finalbody'):
                        blk = getattr(holder, field, None)
                        if isinstance(blk, list) and any(b is d for b in blk):
                            block = blk
                if block is None:
                    continue
                idx = next(k for k, b in enumerate(block) if b is d)
                rest = block[idx + 1:]
                rest_ids = {id(n) for r_ in rest for n in ast.walk(r_)}
                if not all(id(c) in rest_ids for c in calls):
                    continue
                if any(isinstance(n, ast.Name) and n.id in frozen and isinstance(n.ctx, (ast.Store, ast.Del)) for r_ in rest for n in ast.walk(r_)):
                    continue
            for c in calls:
                c.func = clone(v.args[0])
                c.args = [clone(a) for a in v.args[1:]] + list(c.args)
                have = {k.arg for k in c.keywords}
                c.keywords = [ast.keyword(arg=k.arg, value=clone(k.value)) for k in v.keywords if k.arg not in have] + list(c.keywords)
                ast.fix_missing_locations(c)
            # the binding itself is dead now
            class Drop(ast.NodeTransformer):
                def visit_Assign(self, n):
                    return None if n is d else n
            Drop().visit(fn)
            self.desugared += 1
            changed = True
        return changed

    def _desugar_lambda_calls(self, fn):
        """f = lambda a, b: E   ...   f(x, y)      ==>      ...   E[a := x, b := y]
        for a name bound once to a lambda, called with names / constants only (no evaluation is duplicated or reordered)"""
        changed = False
        for d in [n for n in ast.walk(fn) if isinstance(n, ast.Assign) and len(n.targets) == 1 and isinstance(n.targets[0], ast.Name)
                  and isinstance(n.value, ast.Lambda)]:
            name = d.targets[0].id
            lam = d.value
            a = lam.args
            if a.vararg or a.kwarg or a.kwonlyargs or a.defaults or a.posonlyargs:
                continue
            if len([n for n in ast.walk(fn) if isinstance(n, ast.Name) and n.id == name and isinstance(n.ctx, ast.Store)]) != 1:
                continue
            params = [x.arg for x in a.args]
            # free names of the body must not be re-bound in the function (they are read at call time)
            counts = {}
            for n in ast.walk(fn):
                if isinstance(n, ast.Name) and isinstance(n.ctx, ast.Store):
                    counts[n.id] = counts.get(n.id, 0) + 1
            free = {n.id for n in ast.walk(lam.body) if isinstance(n, ast.Name)} - set(params)
            if any(counts.get(x, 0) > 1 for x in free):
                continue
            uses = [n for n in ast.walk(fn) if isinstance(n, ast.Name) and n.id == name and isinstance(n.ctx, ast.Load)]
            calls = [c for c in ast.walk(fn) if isinstance(c, ast.Call) and isinstance(c.func, ast.Name) and c.func.id == name and
                     not c.keywords and len(c.args) == len(params) and all(isinstance(x, (ast.Name, ast.Constant)) for x in c.args)]
            if not calls or len(calls) != len(uses):
                continue
            for c in calls:
                body = _Subst(dict(zip(params, c.args)), {}).visit(clone(lam.body))
                ast.copy_location(body, c)
                ast.fix_missing_locations(body)
                _ReplaceNode(c, body).visit(fn)

            class Drop(ast.NodeTransformer):
                def visit_Assign(self, n):
                    return None if n is d else n
            Drop().visit(fn)
            self.desugared += 1
            changed = True
        return changed

    def _desugar_islice(self, fn):
        """v = list(islice(G, K))  (K a literal >= 2)  observed only through len(v) compared with literals below K, v[c] with
        c < K and truth tests      ==>      v = list(G)
        (those observations cannot tell the first K elements from all of them)"""
        changed = False
        for d in [n for n in ast.walk(fn) if isinstance(n, ast.Assign) and len(n.targets) == 1 and isinstance(n.targets[0], ast.Name)]:
            v = d.value
            if not (isinstance(v, ast.Call) and isinstance(v.func, ast.Name) and v.func.id in ('list', 'tuple') and len(v.args) == 1):
                continue
            inner = v.args[0]
            if not (isinstance(inner, ast.Call) and ((isinstance(inner.func, ast.Name) and inner.func.id == 'islice') or
                                                     (isinstance(inner.func, ast.Attribute) and inner.func.attr == 'islice')) and
                    len(inner.args) == 2 and isinstance(inner.args[1], ast.Constant) and isinstance(inner.args[1].value, int) and inner.args[1].value >= 2):
                continue
            K = inner.args[1].value
            name = d.targets[0].id
            if len([n for n in ast.walk(fn) if isinstance(n, ast.Name) and n.id == name and isinstance(n.ctx, ast.Store)]) != 1:
                continue
            ok = True
            for n in ast.walk(fn):
                if isinstance(n, ast.Name) and n.id == name and isinstance(n.ctx, ast.Load):
                    par = getattr(n, '_parent', None)
                    # parents are not maintained on rewritten trees: find the parent by search
                    par = None
                    for q in ast.walk(fn):
                        if any(c is n for c in ast.iter_child_nodes(q)):
                            par = q
                            break
                    if isinstance(par, ast.Subscript) and par.value is n and isinstance(par.slice, ast.Constant) and \
                            isinstance(par.slice.value, int) and 0 <= par.slice.value < K:
                        continue
                    if isinstance(par, ast.Call) and isinstance(par.func, ast.Name) and par.func.id == 'len' and len(par.args) == 1:
                        gp = None
                        for q in ast.walk(fn):
                            if any(c is par for c in ast.iter_child_nodes(q)):
                                gp = q
                                break
                        if isinstance(gp, ast.Compare) and len(gp.ops) == 1 and all(
                                isinstance(c_, ast.Constant) and isinstance(c_.value, int) and c_.value < K for c_ in [gp.left] + gp.comparators if c_ is not par):
                            continue
                        ok = False
                    elif isinstance(par, (ast.If, ast.While)) and par.test is n:
                        continue
                    elif isinstance(par, ast.UnaryOp) and isinstance(par.op, ast.Not):
                        continue
                    else:
                        ok = False
            if ok:
                v.args[0] = inner.args[0]
                self.desugared += 1
                changed = True
        return changed

    def _desugar_iterator_pulls(self, stmts, fn):
        """it = (e for t in SRC if c)   [or a private generator function]   consumed only by k successive `next(it, d_i)`:
              v1 = d1; ...; vk = dk; n = 0
              for t in SRC:
                  if c:
                      if n == 0: v1 = e
                      elif n == 1: v2 = e ...
                      n += 1
           and the i-th `next(it, d_i)` reads v_i.  The values pulled are the same; the source is read to its end instead of
           stopping after k hits (the sources here are side-effect free membership scans)."""
        out = []
        for idx, s in enumerate(stmts):
            for field in ('body', 'orelse', 'finalbody'):
                blk = getattr(s, field, None)
                if isinstance(blk, list) and blk and isinstance(blk[0], ast.stmt) and not isinstance(s, (ast.FunctionDef, ast.ClassDef)):
                    setattr(s, field, self._desugar_iterator_pulls(blk, fn))
            if isinstance(s, ast.Try):
                for h in s.handlers:
                    h.body = self._desugar_iterator_pulls(h.body, fn)
            if not (isinstance(s, ast.Assign) and len(s.targets) == 1 and isinstance(s.targets[0], ast.Name)):
                out.append(s)
                continue
            it = s.targets[0].id
            v = s.value
            is_gexp = isinstance(v, ast.GeneratorExp) and len(v.generators) == 1
            is_gcall = self._is_generator_call(v)
            if not (is_gexp or is_gcall):
                out.append(s)
                continue
            uses = [n for n in ast.walk(fn) if isinstance(n, ast.Name) and n.id == it and n is not s.targets[0]]
            pulls = [c for c in ast.walk(fn) if isinstance(c, ast.Call) and isinstance(c.func, ast.Name) and c.func.id == 'next' and
                     len(c.args) == 2 and not c.keywords and isinstance(c.args[0], ast.Name) and c.args[0].id == it and _pure(c.args[1])]
            rest_nodes = {id(n) for r_ in stmts[idx + 1:] for n in ast.walk(r_)}
            if not pulls or len(pulls) > 3 or len(uses) != len(pulls) or any(id(c) not in rest_nodes for c in pulls) or \
                    len([n for n in ast.walk(fn) if isinstance(n, ast.Name) and n.id == it and isinstance(n.ctx, ast.Store)]) != 1:
                out.append(s)
                continue
            # pulls inside a loop would repeat: only straight-line / branching code after the definition
            in_loop = False
            for r_ in stmts[idx + 1:]:
                for lp in ast.walk(r_):
                    if isinstance(lp, (ast.For, ast.While)) and any(id(c) in {id(x) for x in ast.walk(lp)} for c in pulls):
                        in_loop = True
            if in_loop:
                out.append(s)
                continue
            pulls.sort(key=lambda c: (c.lineno, c.col_offset))
            k = next(self.counter)
            cnt = self.fresh('_pulled', k)
            names = [self.fresh('_pull%d' % (i + 1), k) for i in range(len(pulls))]
            if is_gexp:
                g = v.generators[0]
                target, src, conds, elt = g.target, g.iter, list(g.ifs), v.elt
            else:
                ev = self.fresh('_elem', k)
                target, src, conds, elt = ast.Name(id=ev, ctx=ast.Store()), v, [], ast.Name(id=ev, ctx=ast.Load())
            chain = None
            for i in reversed(range(len(names))):
                test = ast.Compare(left=ast.Name(id=cnt, ctx=ast.Load()), ops=[ast.Eq()], comparators=[ast.Constant(value=i)])
                asg = ast.Assign(targets=[ast.Name(id=names[i], ctx=ast.Store())], value=clone(elt))
                chain = ast.If(test=test, body=[asg], orelse=[chain] if chain is not None else [])
            inc = ast.AugAssign(target=ast.Name(id=cnt, ctx=ast.Store()), op=ast.Add(), value=ast.Constant(value=1))
            body = [chain, inc]
            for cond in reversed(conds):
                body = [ast.If(test=cond, body=body, orelse=[])]
            loop = ast.For(target=target, iter=src, body=body, orelse=[], type_comment=None)
            pre = [ast.Assign(targets=[ast.Name(id=nm, ctx=ast.Store())], value=clone(c.args[1])) for nm, c in zip(names, pulls)]
            pre.append(ast.Assign(targets=[ast.Name(id=cnt, ctx=ast.Store())], value=ast.Constant(value=0)))
            for st in pre + [loop]:
                ast.copy_location(st, s)
                ast.fix_missing_locations(st)
                out.append(st)
            for nm, c in zip(names, pulls):
                repl = ast.copy_location(ast.Name(id=nm, ctx=ast.Load()), c)
                for r_ in stmts[idx + 1:]:
                    _ReplaceNode(c, repl).visit(r_)
            self.desugared += 1
        return out

    def _class_literal(self, attr):
        """the literal a class-level name is bound to (once, in the class body or a base), if nothing else stores to it"""
        cls = self.fi.cls
        if cls is None:
            return None
        stored = self.prog.__dict__.get('_stored_attrs')
        if stored is None:
            stored = set()
            for f in self.prog.all_functions():
                for n in ast.walk(f.node):
                    if isinstance(n, ast.Attribute) and isinstance(n.ctx, (ast.Store, ast.Del)):
                        stored.add(n.attr)
            self.prog.__dict__['_stored_attrs'] = stored
        if attr in stored:
            return None
        found = []
        for c in cls.mro:
            node = getattr(c, 'node', None)
            if node is None:
                continue
            for st in node.body:
                if isinstance(st, ast.Assign) and any(isinstance(t, ast.Name) and t.id == attr for t in st.targets):
                    found.append(st.value)
        return found[0] if len(found) == 1 else None

    def _exception_tuple(self, e, depth=0):
        """the exception classes a handler type denotes, as a list of Name/Attribute nodes, when it is a name bound once to a
        tuple of classes or computed from a class-level table of (class, ...) rows; None otherwise"""
        if depth > 3:
            return None
        if isinstance(e, ast.Tuple) and all(isinstance(x, (ast.Name, ast.Attribute)) for x in e.elts):
            return list(e.elts)
        if isinstance(e, ast.Name):
            d = self._only_def(e.id)
            return self._exception_tuple(d.value, depth + 1) if d is not None else None
        if isinstance(e, ast.Attribute) and isinstance(e.value, ast.Name) and e.value.id in ('self', 'cls'):
            lit = self._class_literal(e.attr)
            return self._exception_tuple(lit, depth + 1) if lit is not None else None
        if isinstance(e, ast.Call) and isinstance(e.func, ast.Name) and e.func.id == 'tuple' and len(e.args) == 1 and \
                isinstance(e.args[0], (ast.GeneratorExp, ast.ListComp)) and len(e.args[0].generators) == 1 and not e.args[0].generators[0].ifs:
            comp = e.args[0]
            g = comp.generators[0]
            src = g.iter
            if isinstance(src, ast.Attribute) and isinstance(src.value, ast.Name) and src.value.id in ('self', 'cls'):
                src = self._class_literal(src.attr)
            if not (isinstance(src, (ast.Tuple, ast.List)) and src.elts and all(isinstance(r, (ast.Tuple, ast.List)) and r.elts for r in src.elts)):
                return None
            # the element selected from every row: a target name of the unpacking, or row[i]
            idx = None
            if isinstance(g.target, ast.Tuple) and isinstance(comp.elt, ast.Name):
                names = [t.id if isinstance(t, ast.Name) else None for t in g.target.elts]
                if comp.elt.id in names:
                    idx = names.index(comp.elt.id)
            elif isinstance(g.target, ast.Name) and isinstance(comp.elt, ast.Subscript) and isinstance(comp.elt.value, ast.Name) and \
                    comp.elt.value.id == g.target.id and isinstance(comp.elt.slice, ast.Constant) and isinstance(comp.elt.slice.value, int):
                idx = comp.elt.slice.value
            if idx is None or any(idx >= len(r.elts) for r in src.elts):
                return None
            picked = [r.elts[idx] for r in src.elts]
            return picked if all(isinstance(x, (ast.Name, ast.Attribute)) for x in picked) else None
        return None

    def desugar_stmt(self, s):
        # `except NAME:` where NAME is bound once to a tuple of exception classes (possibly taken from a class-level table)
        if isinstance(s, ast.Try):
            for h in s.handlers:
                if isinstance(h.type, (ast.Name, ast.Attribute)) and not (isinstance(h.type, ast.Name) and h.type.id[:1].isupper()):
                    classes = self._exception_tuple(h.type)
                    if classes:
                        h.type = ast.copy_location(ast.Tuple(elts=[clone(c) for c in classes], ctx=ast.Load()), h.type)
                        self.desugared += 1
        # getattr(x, 'Name') with a literal name is the attribute x.Name
        class GA(ast.NodeTransformer):
            def __init__(self):
                self.n = 0

            def visit_Call(self, node):
                self.generic_visit(node)
                # dict((k, v) for t in S if c) is {k: v for t in S if c}
                if isinstance(node.func, ast.Name) and node.func.id == 'dict' and len(node.args) == 1 and not node.keywords and \
                        isinstance(node.args[0], (ast.GeneratorExp, ast.ListComp)) and isinstance(node.args[0].elt, ast.Tuple) and \
                        len(node.args[0].elt.elts) == 2:
                    self.n += 1
                    g_ = node.args[0]
                    return ast.copy_location(ast.DictComp(key=g_.elt.elts[0], value=g_.elt.elts[1], generators=g_.generators), node)
                # operator.contains(a, b) is `b in a`; operator.getitem(a, b) is `a[b]`
                if isinstance(node.func, ast.Attribute) and isinstance(node.func.value, ast.Name) and node.func.value.id == 'operator' and \
                        len(node.args) == 2 and not node.keywords and node.func.attr in ('contains', 'getitem'):
                    self.n += 1
                    if node.func.attr == 'contains':
                        return ast.copy_location(ast.Compare(left=node.args[1], ops=[ast.In()], comparators=[node.args[0]]), node)
                    return ast.copy_location(ast.Subscript(value=node.args[0], slice=node.args[1], ctx=ast.Load()), node)
                if isinstance(node.func, ast.Name) and node.func.id == 'getattr' and len(node.args) == 2 and not node.keywords and \
                        isinstance(node.args[1], ast.Constant) and isinstance(node.args[1].value, str) and node.args[1].value.isidentifier():
                    self.n += 1
                    return ast.copy_location(ast.Attribute(value=node.args[0], attr=node.args[1].value, ctx=ast.Load()), node)
                return node
        if not isinstance(s, (ast.For, ast.While, ast.If, ast.Try, ast.With, ast.FunctionDef, ast.ClassDef)):
            ga = GA()
            s = ga.visit(s)
            self.desugared += ga.n
        elif isinstance(s, (ast.If, ast.While)):
            ga = GA()
            s.test = ga.visit(s.test)
            self.desugared += ga.n
        elif isinstance(s, ast.For):
            ga = GA()
            s.iter = ga.visit(s.iter)
            self.desugared += ga.n
        # self.NAME / cls.NAME bound once, at class level, to a string or number that nothing re-binds: the constant itself
        outer = self

        class CC(ast.NodeTransformer):
            def __init__(self):
                self.n = 0

            def visit_FunctionDef(self, node):
                return node

            def visit_BinOp(self, node):
                self.generic_visit(node)
                if isinstance(node.op, ast.Add) and isinstance(node.left, ast.Constant) and isinstance(node.right, ast.Constant) and \
                        isinstance(node.left.value, str) and isinstance(node.right.value, str) and self.n:
                    return ast.copy_location(ast.Constant(value=node.left.value + node.right.value), node)
                return node

            def visit_Attribute(self, node):
                self.generic_visit(node)
                if isinstance(node.ctx, ast.Load) and isinstance(node.value, ast.Name) and node.value.id in ('self', 'cls') and \
                        node.attr[:1] == '_' or (isinstance(node.ctx, ast.Load) and isinstance(node.value, ast.Name) and
                                                 node.value.id in ('self', 'cls') and node.attr.isupper()):
                    lit = outer._class_literal(node.attr)
                    if isinstance(lit, ast.Constant) and isinstance(lit.value, (str, int, float)) and not isinstance(lit.value, bool):
                        self.n += 1
                        return ast.copy_location(ast.Constant(value=lit.value), node)

                    # a tuple of constants (or of such tuples) is as immutable as a constant: a class-level table of names / rows
                    def const_tuple(e, depth=0):
                        if isinstance(e, ast.Constant):
                            return True
                        if isinstance(e, ast.UnaryOp) and isinstance(e.op, ast.USub) and isinstance(e.operand, ast.Constant):
                            return True
                        return isinstance(e, ast.Tuple) and depth < 2 and all(const_tuple(x, depth + 1) for x in e.elts)
                    if isinstance(lit, ast.Tuple) and lit.elts and const_tuple(lit):
                        self.n += 1
                        return ast.copy_location(clone(lit), node)
                return node
        if isinstance(s, (ast.If, ast.While)):
            cc = CC()
            s.test = cc.visit(s.test)
            self.desugared += cc.n
        elif isinstance(s, ast.For):
            cc = CC()
            s.iter = cc.visit(s.iter)
            self.desugared += cc.n
        elif not isinstance(s, (ast.Try, ast.With, ast.FunctionDef, ast.ClassDef)):
            cc = CC()
            s = cc.visit(s)
            self.desugared += cc.n
        # for i, x in enumerate(IT, start): BODY    ==>    n = start; for x in IT: i = n; n += 1; BODY
        if isinstance(s, ast.For) and isinstance(s.iter, ast.Call) and isinstance(s.iter.func, ast.Name) and s.iter.func.id == 'enumerate' and \
                1 <= len(s.iter.args) <= 2 and isinstance(s.target, ast.Tuple) and len(s.target.elts) == 2 and isinstance(s.target.elts[0], ast.Name) \
                and not s.orelse and all(k.arg == 'start' for k in s.iter.keywords) and len(s.iter.keywords) <= 1:
            start = s.iter.args[1] if len(s.iter.args) == 2 else (s.iter.keywords[0].value if s.iter.keywords else ast.Constant(value=0))
            if _pure(start) and (self._is_generator_call(s.iter.args[0]) or isinstance(s.iter.args[0], (ast.GeneratorExp,))):
                cnt = self.fresh('_count', next(self.counter))
                init = ast.copy_location(ast.Assign(targets=[ast.Name(id=cnt, ctx=ast.Store())], value=start), s)
                take = ast.copy_location(ast.Assign(targets=[s.target.elts[0]], value=ast.Name(id=cnt, ctx=ast.Load())), s)
                inc = ast.copy_location(ast.AugAssign(target=ast.Name(id=cnt, ctx=ast.Store()), op=ast.Add(), value=ast.Constant(value=1)), s)
                loop = ast.copy_location(ast.For(target=s.target.elts[1], iter=s.iter.args[0], body=[take, inc] + list(s.body), orelse=[],
                                                 type_comment=None), s)
                for x_ in (init, loop):
                    ast.fix_missing_locations(x_)
                self.desugared += 1
                return [init] + self.desugar([loop])
        # for x in itertools.chain(A, B): BODY  is the same pair of loops (chain is lazy: B is iterated when A is exhausted, exactly as
        # the second loop does; A and B name the same objects as long as BODY does not re-bind them)
        if isinstance(s, ast.For) and isinstance(s.iter, ast.Call) and call_name(s.iter) == 'chain' and len(s.iter.args) == 2 and \
                not s.iter.keywords and not s.orelse and not _contains(s.body, ast.Break) and \
                (isinstance(s.iter.func, ast.Name) or (isinstance(s.iter.func, ast.Attribute) and isinstance(s.iter.func.value, ast.Name)
                                                        and s.iter.func.value.id == 'itertools')) and \
                all(isinstance(p_, (ast.Name, ast.Attribute)) for p_ in s.iter.args) and \
                not ({n.id for p_ in s.iter.args for n in ast.walk(p_) if isinstance(n, ast.Name)} &
                     {n.id for b_ in s.body for n in ast.walk(b_) if isinstance(n, ast.Name) and isinstance(n.ctx, ast.Store)}):
            s.iter = ast.copy_location(ast.BinOp(left=s.iter.args[0], op=ast.Add(), right=s.iter.args[1]), s.iter)
        # for x in A + B: BODY    ==>    for x in A: BODY;  for x in B: BODY      (no break in BODY; A and B are evaluated first
        # in both forms when they are names - otherwise only when evaluating them is pure)
        if isinstance(s, ast.For) and isinstance(s.iter, ast.BinOp) and isinstance(s.iter.op, ast.Add) and not s.orelse and \
                not _contains(s.body, ast.Break) and \
                all(isinstance(p_, (ast.Name, ast.ListComp, ast.List, ast.Attribute)) for p_ in (s.iter.left, s.iter.right)):
            first = ast.copy_location(ast.For(target=s.target, iter=s.iter.left, body=s.body, orelse=[], type_comment=None), s)
            second = ast.copy_location(ast.For(target=clone(s.target), iter=s.iter.right, body=[clone(b) for b in s.body], orelse=[],
                                               type_comment=None), s)
            self.desugared += 1
            return self.desugar([first, second])
        # for x in (e for t in S if c): B    ==>    for t in S: if c: x = e; B       (t renamed when the name is taken)
        if isinstance(s, ast.For) and isinstance(s.iter, (ast.GeneratorExp, ast.ListComp)) and len(s.iter.generators) == 1 and not s.orelse \
                and (isinstance(s.iter, ast.GeneratorExp) or True):
            g = s.iter.generators[0]
            elt = s.iter.elt
            tnames = {n.id for n in ast.walk(g.target) if isinstance(n, ast.Name)}
            taken = (_all_names(self._node) - {n.id for n in ast.walk(s.iter) if isinstance(n, ast.Name)}) | \
                {n.id for b in s.body for n in ast.walk(b) if isinstance(n, ast.Name)}
            ren = {}
            for nm in sorted(tnames):
                if nm in taken:
                    ren[nm] = self.fresh(nm, next(self.counter))
            target, conds = g.target, list(g.ifs)
            if ren:
                sub = _Subst({}, ren)
                target = sub.visit(clone(target))
                conds = [sub.visit(clone(c)) for c in conds]
                elt = sub.visit(clone(elt))
            bind = ast.copy_location(ast.Assign(targets=[s.target], value=elt), s)
            body = [bind] + list(s.body)
            for cond in reversed(conds):
                body = [ast.copy_location(ast.If(test=cond, body=body, orelse=[]), s)]
            self.desugared += 1
            new_loop = ast.copy_location(ast.For(target=target, iter=g.iter, body=body, orelse=[], type_comment=None), s)
            ast.fix_missing_locations(new_loop)
            return self.desugar([new_loop])
        # a loop over a short literal tuple of constants (or of rows of constants, unpacked by the target) is its unrolling
        if isinstance(s, ast.For) and isinstance(s.iter, (ast.Tuple, ast.List)) and 0 < len(s.iter.elts) <= 8 and not s.orelse and \
                not _contains(s.body, (ast.Break, ast.Continue)):
            rows = None

            def lit(e):
                return isinstance(e, ast.Constant) or (isinstance(e, ast.UnaryOp) and isinstance(e.op, (ast.USub, ast.UAdd)) and
                                                       isinstance(e.operand, ast.Constant) and isinstance(e.operand.value, (int, float)))
            if isinstance(s.target, ast.Name) and all(lit(e) for e in s.iter.elts):
                rows = [{s.target.id: e} for e in s.iter.elts]
            elif isinstance(s.target, (ast.Tuple, ast.List)) and all(isinstance(t_, ast.Name) for t_ in s.target.elts) and \
                    all(isinstance(e, (ast.Tuple, ast.List)) and len(e.elts) == len(s.target.elts) and
                        all(lit(c_) for c_ in e.elts) for e in s.iter.elts):
                rows = [dict(zip([t_.id for t_ in s.target.elts], e.elts)) for e in s.iter.elts]
            if rows is not None and not (set(rows[0]) & _stored_names(ast.Module(body=s.body, type_ignores=[]))):
                out = []
                for row in rows:
                    for st in s.body:
                        out.append(_Subst(dict(row), {}).visit(clone(st)))
                self.desugared += 1
                return self.desugar(out)
        # if T[a if c else b]: X else: Y    ==>    if c: (if T[a]: X else: Y) else: (if T[b]: X else: Y)
        # when everything T evaluates before the conditional expression is a constant or a name
        if isinstance(s, ast.If):
            ifexps = [n for n in ast.walk(s.test) if isinstance(n, ast.IfExp)]
            if len(ifexps) == 1 and _pure(ifexps[0].test):
                ie = ifexps[0]
                # the chain of nodes from the test down to the conditional expression
                chain = []

                def find(n, path):
                    if n is ie:
                        chain.extend(path)
                        return True
                    return any(find(c, path + [n]) for c in ast.iter_child_nodes(n))
                find(s.test, [])
                on_chain = {id(n) for n in chain} | {id(ie)}
                earlier_ok = True
                for n in chain:
                    if isinstance(n, (ast.BoolOp, ast.IfExp)):
                        earlier_ok = False
                    for c in ast.iter_child_nodes(n):
                        if id(c) in on_chain or isinstance(c, (ast.operator, ast.cmpop, ast.unaryop, ast.boolop, ast.expr_context)):
                            continue
                        if not _pure(c):
                            earlier_ok = False
                if earlier_ok:
                    def with_branch(which):
                        test = clone(s.test)
                        # locate the clone of the conditional expression by position in a walk
                        orig = list(ast.walk(s.test))
                        new = list(ast.walk(test))
                        idx = next(i for i, n in enumerate(orig) if n is ie)
                        target = new[idx]
                        return _ReplaceNode(target, clone(getattr(ie, which))).visit(test)
                    inner1 = ast.copy_location(ast.If(test=with_branch('body'), body=s.body, orelse=s.orelse), s)
                    inner2 = ast.copy_location(ast.If(test=with_branch('orelse'), body=[clone(b) for b in s.body], orelse=[clone(b) for b in s.orelse]), s)
                    self.desugared += 1
                    outer = ast.copy_location(ast.If(test=clone(ie.test), body=[inner1], orelse=[inner2]), s)
                    ast.fix_missing_locations(outer)
                    return self.desugar([outer])
        # any / all over a generator: as a returned value, an assigned value, or the whole test of an if
        if isinstance(s, ast.Return) and self._anyall(s.value):
            kind, gen = self._anyall(s.value)
            name = self.fresh('_any', next(self.counter))
            return self._anyall_loop(kind, gen, name, s) + [ast.copy_location(ast.Return(value=ast.Name(id=name, ctx=ast.Load())), s)]
        if isinstance(s, ast.Assign) and len(s.targets) == 1 and isinstance(s.targets[0], ast.Name) and self._anyall(s.value):
            kind, gen = self._anyall(s.value)
            return self._anyall_loop(kind, gen, s.targets[0].id, s)
        if isinstance(s, ast.If):
            # a short-circuit test with an any/all operand: split it, so that the operand becomes a test of its own
            t = s.test
            if isinstance(t, ast.UnaryOp) and isinstance(t.op, ast.Not) and isinstance(t.operand, ast.BoolOp):
                inner = t.operand
                flipped = ast.Or() if isinstance(inner.op, ast.And) else ast.And()
                t = ast.copy_location(ast.BoolOp(op=flipped, values=[
                    ast.copy_location(ast.UnaryOp(op=ast.Not(), operand=v), v) for v in inner.values]), t)

            def has_anyall(e):
                while isinstance(e, ast.UnaryOp) and isinstance(e.op, ast.Not):
                    e = e.operand
                return self._anyall(e) is not None
            if isinstance(t, ast.BoolOp) and len(t.values) >= 2 and any(has_anyall(v) for v in t.values):
                first = t.values[0]
                rest = t.values[1] if len(t.values) == 2 else ast.copy_location(ast.BoolOp(op=t.op, values=t.values[1:]), t)
                self.desugared += 1
                if isinstance(t.op, ast.And):
                    inner_if = ast.copy_location(ast.If(test=rest, body=s.body, orelse=clone(s.orelse)), s)
                    new_if = ast.copy_location(ast.If(test=first, body=[inner_if], orelse=s.orelse), s)
                else:
                    inner_if = ast.copy_location(ast.If(test=rest, body=clone(s.body), orelse=s.orelse), s)
                    new_if = ast.copy_location(ast.If(test=first, body=s.body, orelse=[inner_if]), s)
                return self.desugar([new_if])
            t = s.test
            neg = False
            if isinstance(t, ast.UnaryOp) and isinstance(t.op, ast.Not):
                t, neg = t.operand, True
            if self._anyall(t):
                kind, gen = self._anyall(t)
                name = self.fresh('_any', next(self.counter))
                nm = ast.Name(id=name, ctx=ast.Load())
                s.test = ast.copy_location(ast.UnaryOp(op=ast.Not(), operand=nm), s.test) if neg else ast.copy_location(nm, s.test)
                return self._anyall_loop(kind, gen, name, s) + [s]
        # while True: if c: break; rest   ==>   while not c: rest
        if isinstance(s, ast.While) and isinstance(s.test, ast.Constant) and s.test.value is True and not s.orelse and s.body and \
                isinstance(s.body[0], ast.If) and not s.body[0].orelse and len(s.body[0].body) == 1 and isinstance(s.body[0].body[0], ast.Break) \
                and len(s.body) > 1:
            c = s.body[0].test
            neg = c.operand if (isinstance(c, ast.UnaryOp) and isinstance(c.op, ast.Not)) else ast.copy_location(ast.UnaryOp(op=ast.Not(), operand=c), c)
            self.desugared += 1
            return [ast.copy_location(ast.While(test=neg, body=s.body[1:], orelse=[]), s)]
        # value <- c ? a : b        (return / assignment to one name)
        def split(value, make):
            if isinstance(value, ast.IfExp):
                self.desugared += 1
                return [ast.copy_location(ast.If(test=value.test, body=split(value.body, make), orelse=split(value.orelse, make)), s)]
            if isinstance(value, ast.BoolOp) and isinstance(value.op, ast.Or) and len(value.values) == 2 and \
                    isinstance(value.values[0], ast.Name):
                # a or b   ==   a if a else b      (a is a plain name: no double evaluation)
                self.desugared += 1
                a, b = value.values
                return [ast.copy_location(ast.If(test=clone(a), body=make(a), orelse=split(b, make)), s)]
            return make(value)
        if isinstance(s, ast.Return) and isinstance(s.value, (ast.IfExp, ast.BoolOp)):
            return split(s.value, lambda v: [ast.copy_location(ast.Return(value=v), s)])
        if isinstance(s, ast.Assign) and len(s.targets) == 1 and isinstance(s.value, ast.IfExp) and \
                (isinstance(s.targets[0], ast.Name) or (isinstance(s.targets[0], ast.Attribute) and isinstance(s.targets[0].value, ast.Name))):
            tgt = s.targets[0]
            return split(s.value, lambda v: [ast.copy_location(ast.Assign(targets=[clone(tgt)], value=v), s)])
        # x = next((e for t in it if c), default)   ==>   x = default; for t in it: if c: x = e; break
        if isinstance(s, ast.Assign) and len(s.targets) == 1 and isinstance(s.targets[0], ast.Name) and \
                isinstance(s.value, ast.Call) and isinstance(s.value.func, ast.Name) and s.value.func.id == 'next' and \
                len(s.value.args) == 2 and not s.value.keywords:
            gen = s.value.args[0]
            drop = None
            if isinstance(gen, ast.Name):
                d = self._single_def(gen.id)
                if d is not None and isinstance(d.value, ast.GeneratorExp):
                    gen, drop = d.value, d
            if isinstance(gen, ast.GeneratorExp) and len(gen.generators) == 1:
                g0 = gen.generators[0]
                tgt = s.targets[0]
                body = [ast.copy_location(ast.Assign(targets=[clone(tgt)], value=gen.elt), s), ast.copy_location(ast.Break(), s)]
                for cond in reversed(g0.ifs):
                    body = [ast.copy_location(ast.If(test=cond, body=body, orelse=[]), s)]
                loop = ast.For(target=g0.target, iter=g0.iter, body=body, orelse=[], type_comment=None)
                init = ast.Assign(targets=[clone(tgt)], value=s.value.args[1])
                self.desugared += 1
                if drop is not None:
                    self._dropped.add(id(drop))
                return [ast.copy_location(init, s), ast.copy_location(loop, s)]
        return [s]

    def run(self):
        node = clone(self.fi.node)
        self._node = node
        self.desugared = 0
        self._dropped = set()
        self._desugar_partials(node)
        self._desugar_islice(node)
        node.body = self._desugar_iterator_pulls(node.body, node)
        node.body = self._desugar_dispatch(node.body, node)
        node.body = self.desugar(node.body)
        if self._dropped:
            class Drop(ast.NodeTransformer):
                def __init__(self, ids):
                    self.ids = ids

                def visit_Assign(self, n):
                    return None if id(n) in self.ids else n
            node = Drop(self._dropped).visit(node)
        if self.desugared:
            self.inlined.append(self.fi.key + '::<desugared>')
        if self.local_defs:
            # the nested definitions themselves stay in place (harmless), their clones are resolved by name
            pass
        node.body = self.lower_comprehensions(node.body)
        node.body = self.rewrite_block(node.body, self.fi.cls, [self.fi.key])
        # a closure all of whose uses were inlined is dead: remove its definition (its `return`s are not the function's)
        for name in list(self.local_defs):
            used = any(isinstance(n, ast.Name) and n.id == name for st in node.body if not (isinstance(st, ast.FunctionDef) and st.name == name)
                       for n in ast.walk(st))
            if not used and any(k.endswith('.<locals>.' + name) for k in self.inlined):
                node.body = [st for st in node.body if not (isinstance(st, ast.FunctionDef) and st.name == name)] or [ast.Pass()]
        # a flag parameter bound to a literal leaves `if not False:` behind: keep the branch taken
        # inlining exposes new sugar (a helper that was `return any(...)`), folding leaves a single binding where there were
        # two (`book = a if flag else b`), which makes another call resolvable: repeat until nothing changes (bounded)
        before = self.desugared
        for _round in range(4):
            shape = ast.dump(node)
            if self.inlined:
                node.body = _fold_constant_tests(node.body) or [ast.Pass()]
            node.body = self._hoist_branch_closures(node.body)
            self._desugar_partials(node)
            self._desugar_lambda_calls(node)
            self._desugar_islice(node)
            node.body = self._desugar_iterator_pulls(node.body, node)
            node.body = self._desugar_dispatch(node.body, node)
            node.body = self.desugar(node.body)
            node.body = self._forward_generator_temps(node.body)
            node.body = self.lower_comprehensions(node.body)
            node.body = self.rewrite_block(node.body, self.fi.cls, [self.fi.key])
            for _k in range(8):
                if not (self._records_to_tuples_locally(node) or self._scalarise_tuples(node) or self._scalarise_dicts(node)):
                    break
            self._fold_sequence_markers(node)
            self._fold_sentinel_tests(node)
            if ast.dump(node) == shape:
                break
        if self.desugared != before and (self.fi.key + '::<desugared>') not in self.inlined:
            self.inlined.append(self.fi.key + '::<desugared>')
        ast.fix_missing_locations(node)
        if self.inlined:
            try:
                self._coalesce_batons(node)
                self._drop_dead_copies(node)
            except RecursionError:
                raise
            except Exception:
                pass
        for n in ast.walk(node):
            for child in ast.iter_child_nodes(n):
                child._parent = n
        node._parent = getattr(self.fi.node, '_parent', None)
        return node


def _const_truth(t):
    if isinstance(t, ast.Constant) and (isinstance(t.value, bool) or t.value is None):
        return bool(t.value)
    # x is x / x is not x for one and the same name
    if isinstance(t, ast.Compare) and len(t.ops) == 1 and isinstance(t.ops[0], (ast.Is, ast.IsNot)) and isinstance(t.left, ast.Name) and \
            isinstance(t.comparators[0], ast.Name) and t.left.id == t.comparators[0].id:
        return isinstance(t.ops[0], ast.Is)
    # nothing is a member of an empty display: `x in ()` is False whatever the name x holds
    if isinstance(t, ast.Compare) and len(t.ops) == 1 and isinstance(t.ops[0], (ast.In, ast.NotIn)) and \
            isinstance(t.left, (ast.Name, ast.Constant)) and isinstance(t.comparators[0], (ast.Tuple, ast.List, ast.Set)) and \
            not t.comparators[0].elts:
        return isinstance(t.ops[0], ast.NotIn)
    if isinstance(t, ast.Compare) and len(t.ops) == 1 and isinstance(t.left, ast.Constant) and isinstance(t.left.value, (str, int)) \
            and not isinstance(t.left.value, bool):
        r, op = t.comparators[0], t.ops[0]
        if isinstance(r, ast.Constant) and type(r.value) is type(t.left.value) and isinstance(op, (ast.Eq, ast.NotEq)):
            return (t.left.value == r.value) == isinstance(op, ast.Eq)
        if isinstance(r, (ast.Tuple, ast.List)) and isinstance(op, (ast.In, ast.NotIn)) and \
                all(isinstance(e, ast.Constant) and type(e.value) is type(t.left.value) for e in r.elts):
            return (t.left.value in [e.value for e in r.elts]) == isinstance(op, ast.In)
        return None
    if isinstance(t, ast.UnaryOp) and isinstance(t.op, ast.Not):
        r = _const_truth(t.operand)
        return None if r is None else (not r)
    return None


def _fold_constant_tests(stmts):
    out = []
    for s in stmts:
        # a comprehension condition that is always true filters nothing
        if not isinstance(s, (ast.FunctionDef, ast.ClassDef)):
            for n in ast.walk(s):
                if isinstance(n, ast.comprehension) and n.ifs:
                    n.ifs = [c for c in n.ifs if _const_truth(c) is not True]
        if isinstance(s, ast.If):
            r = _const_truth(s.test)
            if r is not None:
                out.extend(_fold_constant_tests(s.body if r else s.orelse))
                continue
        for field in ('body', 'orelse', 'finalbody'):
            blk = getattr(s, field, None)
            if isinstance(blk, list) and blk and isinstance(blk[0], ast.stmt) and not isinstance(s, (ast.FunctionDef, ast.ClassDef)):
                new = _fold_constant_tests(blk)
                setattr(s, field, new if (new or field != 'body') else [ast.Pass()])
        if isinstance(s, ast.Try):
            for h in s.handlers:
                h.body = _fold_constant_tests(h.body) or [ast.Pass()]
        out.append(s)
    return out


class _ReplaceNode(ast.NodeTransformer):
    def __init__(self, old, new):
        self.old = old
        self.new = new

    def visit(self, node):
        if node is self.old:
            return self.new
        return self.generic_visit(node)


def flatten(prog, fi, accept=None):
    """FuncInfo with private helpers inlined (cached per program); the original when nothing was inlined"""
    cache = prog.__dict__.setdefault('_flat_cache', {})
    key = (fi.key, id(fi.node), None if accept is None else id(accept))
    if key in cache:
        return cache[key]
    fl = Flattener(prog, fi, accept)
    try:
        node = fl.run()
    except RecursionError:
        raise
    except Exception:
        # the transformation is an aid, never a requirement: on anything unforeseen the function is analysed as written
        cache[key] = fi
        return fi
    if not fl.inlined:
        out = fi
    else:
        out = FuncInfo(fi.module, node, fi.cls)
        out.origin = fi
        out.inlined = sorted(set(fl.inlined))
    cache[key] = out
    return out


def judged_at_callers(prog, funcs):
    """keys of the private functions among `funcs` every textual call of which (in `funcs`) sits in a function whose
    flattened form has the callee inlined and no call to it left: such a helper is judged as part of its callers"""
    flats = {f.key: flatten(prog, f) for f in funcs}
    out = set()
    for f in funcs:
        if not _is_private(f.name):
            continue
        textual = covered = 0
        for o in funcs:
            if o.key == f.key:
                continue
            k = sum(1 for c in ast.walk(o.node) if isinstance(c, ast.Call) and (
                (isinstance(c.func, ast.Attribute) and c.func.attr == f.name) or (isinstance(c.func, ast.Name) and c.func.id == f.name)))
            if not k:
                continue
            textual += k
            ofl = flats[o.key]
            left = any(isinstance(c, ast.Call) and ((isinstance(c.func, ast.Attribute) and c.func.attr == f.name) or
                                                    (isinstance(c.func, ast.Name) and c.func.id == f.name)) for c in ast.walk(ofl.node))
            if f.key in getattr(ofl, 'inlined', ()) and not left:
                covered += k
        if textual and textual == covered:
            out.add(f.key)
    return out


# ---- search loop with a sentinel: the continuation is moved to where the element is found -------------------------
def _stores(node, name):
    return [n for n in ast.walk(node) if isinstance(n, ast.Name) and n.id == name and isinstance(n.ctx, (ast.Store, ast.Del))]


def _free_jump(stmts):
    """a break / continue that would bind to an enclosing loop when the statements are moved into one"""
    def walk(n, in_loop):
        if isinstance(n, (ast.Break, ast.Continue)) and not in_loop:
            return True
        if isinstance(n, (ast.FunctionDef, ast.ClassDef, ast.Lambda)):
            return False
        inner = in_loop or isinstance(n, (ast.For, ast.While))
        return any(walk(c, inner) for c in ast.iter_child_nodes(n))
    return any(walk(s, False) for s in stmts)


def _is_none_test(t, name):
    """True when `t` is `name is None`, False when `name is not None`, else None"""
    if isinstance(t, ast.Compare) and len(t.ops) == 1 and isinstance(t.left, ast.Name) and t.left.id == name and \
            isinstance(t.comparators[0], ast.Constant) and t.comparators[0].value is None:
        if isinstance(t.ops[0], (ast.Is, ast.Eq)):
            return True
        if isinstance(t.ops[0], (ast.IsNot, ast.NotEq)):
            return False
    if isinstance(t, ast.UnaryOp) and isinstance(t.op, ast.Not):
        r = _is_none_test(t.operand, name)
        return None if r is None else (not r)
    return None


def _sink_block(stmts, fn_node):
    out = list(stmts)
    for j, loop in enumerate(out):
        if not isinstance(loop, ast.For) or loop.orelse or not isinstance(loop.target, ast.Name) or j + 1 >= len(out):
            continue
        test = out[j + 1]
        if not isinstance(test, ast.If):
            continue
        elem = loop.target.id
        # the hit:  x = <element>; break   somewhere under `if`s of the loop body
        hit = None

        def find(block):
            nonlocal hit
            for k, s in enumerate(block):
                if isinstance(s, ast.Assign) and len(s.targets) == 1 and isinstance(s.targets[0], ast.Name) and \
                        isinstance(s.value, ast.Name) and s.value.id == elem and k + 1 < len(block) and isinstance(block[k + 1], ast.Break):
                    if hit is not None:
                        hit = False
                    elif hit is None:
                        hit = (block, k, s.targets[0].id)
                elif isinstance(s, ast.If):
                    find(s.body)
                    find(s.orelse)
        find(loop.body)
        if not hit:
            continue
        block, k, x = hit
        isnone = _is_none_test(test.test, x)
        if isnone is None:
            continue
        # x is None before the loop, and is stored nowhere else
        init = [i for i in range(j) if isinstance(out[i], ast.Assign) and len(out[i].targets) == 1 and isinstance(out[i].targets[0], ast.Name)
                and out[i].targets[0].id == x and isinstance(out[i].value, ast.Constant) and out[i].value.value is None]
        if not init:
            continue
        i0 = init[-1]
        if any(_stores(s, x) for s in out[i0 + 1:j]) or len(_stores(fn_node, x)) != 2:
            continue
        if len([n for n in ast.walk(loop) if isinstance(n, ast.Break)]) != 1 or _stores(loop, elem)[1:]:
            continue
        found_part = test.orelse if isnone else test.body
        missing_part = test.body if isnone else test.orelse
        tail = out[j + 2:]
        moved = list(found_part) + list(tail)
        if _free_jump(moved):
            continue
        # found: the continuation runs where the element is known; not found: the other branch, then the same continuation
        block[k + 1:k + 2] = [clone(s) for s in moved] + [block[k + 1]]
        none_test = ast.copy_location(ast.Compare(left=ast.Name(id=x, ctx=ast.Load()), ops=[ast.Is()], comparators=[ast.Constant(value=None)]), test)
        after = list(missing_part) + ([] if (missing_part and _terminates(missing_part)) else [clone(s) for s in tail])
        new_if = ast.copy_location(ast.If(test=none_test, body=after or [ast.Pass()], orelse=[]), test)
        out = out[:j + 1] + [new_if]
        return _sink_block(out, fn_node), True
    return out, False


def sink_search_tails(fi):
    """`x = None; for s in L: if c: x = s; break` followed by `if x is None: A else: B` and a continuation T  becomes
    `... if c: x = s; B; T; break` followed by `if x is None: A; T` - the same executions (the loop does nothing after the
    hit), with what happens to the element found written where the element is the loop variable.  Applied to the
    function's own statement list only; returns a FuncInfo (the same one when nothing matched)."""
    node = clone(fi.node)
    body, changed = _sink_block(node.body, node)
    if not changed:
        return fi
    node.body = body
    ast.fix_missing_locations(node)
    for n in ast.walk(node):
        for child in ast.iter_child_nodes(n):
            child._parent = n
    node._parent = getattr(fi.node, '_parent', None)
    out = copy.copy(fi)
    out.node = node
    return out
