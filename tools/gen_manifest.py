"""Regenerates /verif/MANIFEST.json from the per-rule-module metadata (MANIFEST_* constants) found in sfcv/rules."""
import importlib, json, os, sys
sys.path.insert(0, '/verif')
PIDS = ['C%02d' % i for i in range(1, 21)]
checks, na = [], []
for pid in PIDS:
    path = '/verif/sfcv/rules/%s.py' % pid
    if not os.path.exists(path):
        na.append({'property_id': pid, 'reason': 'check not yet built in this round (design in DESIGN.md section 3); no claim is made'})
        continue
    mod = importlib.import_module('sfcv.rules.' + pid)
    if getattr(mod, 'NOT_APPLICABLE', None):
        na.append({'property_id': pid, 'reason': mod.NOT_APPLICABLE})
        continue
    checks.append({
        'property_id': pid,
        'quick_cmd': '/venv/bin/python -m sfcv check %s --tier quick' % pid,
        'thorough_cmd': '/venv/bin/python -m sfcv check %s --tier thorough' % pid,
        'evidence_file': '/verif/evidence/%s.json' % pid,
        'replay_cmd_template': '/venv/bin/python -m sfcv replay {path}',
        'engine': 'sfcv',
        'level_claimed': {
            'category': 'other',
            'text': getattr(mod, 'LEVEL_TEXT', mod.EXPLANATION),
            'design_ref': 'DESIGN.md section 3, ' + pid,
        },
        'level_note': getattr(mod, 'LEVEL_NOTE',
                              'Decides the named structural clauses (necessary conditions) on every path of the anchored '
                              'functions, not the runtime behaviour itself. Trusted base: CPython ast/tokenize and the sfcv analyser.'),
        'technique': getattr(mod, 'TECHNIQUE', 'static analysis: custom AST/CFG dataflow rules over the parsed source'),
    })
m = {
    'version': 1,
    'setup_cmd': '/venv/bin/python -m compileall -q /verif/sfcv',
    'hooks': {'guard': 'SFC_MODELS_VERIF', 'enable': 'none needed: the checks only parse the source; no hooks were added to the repository',
              'baseline_off_cmd': 'cd /repo && /venv/bin/python -m pytest -ra -q -p no:cacheprovider --timeout=900 --continue-on-collection-errors',
              'source_commits': [], 'add_only': True},
    'engines': [{'name': 'sfcv', 'path': '/verif/sfcv', 'serves_properties': [c['property_id'] for c in checks],
                 'kind_free_text': 'repository-specific static analyser (stdlib ast/tokenize): program model, statement CFG with dominators, '
                                   'alias/escape and taint dataflow, string-template domain, effect extraction and ledger algebra'}],
    'checks': checks,
    'not_applicable': na,
    'notes': 'Static analysis only: no check imports or runs sfc_models. Exit 0 = all obligations discharged (known findings listed in '
             'known_findings.json are printed as KNOWN-FINDING lines); exit 1 = VIOLATION; exit 2 = ANALYSIS-ERROR (anchor lost / outside the modelled fragment).',
}
json.dump(m, open('/verif/MANIFEST.json', 'w'), indent=1)
print('checks:', [c['property_id'] for c in checks], 'n/a:', len(na))
