"""C06 - sector ledgers reflect exactly the cash flows recorded on them (decided structural clauses).

R1 one F entry per flow : every path of the cash-flow method past the empty-term return executes exactly one
                          F.AddTerm(t), t being the stripped argument.
R2 income iff flagged   : INC.AddTerm(t) executes iff the income flag survives; the flag is only lowered, and only
                          under  obj is this sector  and  excluded == sign-stripped name.
R3 define-if-empty      : the overwrite of an existing flow variable is control-dependent on "current RHS empty/zero";
                          the create branch on absence; both only when a definition was supplied.
R4 merge or append      : Equation.AddTerm does, on each non-raising path, exactly one of {add the coefficients of
                          textually equal terms, append}.
W  who may write        : the only writers of a sector's F / INC equations are the Sector constructor and the
                          cash-flow method."""
import ast

from .. import cfg as cfgmod
from ..loader import AnalysisError, unparse, call_name, const_str
from ..dataflow import target_names

TECHNIQUE = ('static analysis: exactly-once path counting and control dependence on a hand-built CFG; who-may-write scan of '
             'all F / INC writers with a positive control')
EXPLANATION = (
    'Validates the summary of the booking primitive that the ledger rules (C01, C04, C07) rely on: F receives the term exactly '
    'once on every path, INC receives it iff the income flag survives (lowered only by a matching exclusion of this sector), an '
    'existing flow variable is overwritten only when its current right-hand side is empty/zero, and no code outside the '
    'constructor and this method writes F / INC. Equation.AddTerm merges only textually equal terms or appends.')


def find_cashflow_method(prog):
    """role: the Sector-family method that calls .AddTerm on EquationBlock['F']"""
    out = []
    for f in prog.all_functions():
        if f.cls is None or not any(c.name == 'Sector' for c in f.cls.mro) or f.name == '__init__':
            continue
        if block_addterm_nodes(f.node, 'F'):
            out.append(f)
    if len(out) > 1:
        # a foreign writer of F is C06.W's business; the primitive is the one that also maintains INC on the base class
        pref = [f for f in out if block_addterm_nodes(f.node, 'INC') and f.cls.name == 'Sector']
        if len(pref) == 1:
            out = pref
    if len(out) != 1:
        raise AnalysisError('expected one cash-flow method (AddTerm on EquationBlock[\'F\']), found %s' % [f.qualname for f in out])
    return out[0]


def block_addterm_nodes(node, key):
    res = []
    for c in ast.walk(node):
        if isinstance(c, ast.Call) and call_name(c) == 'AddTerm' and isinstance(c.func.value, ast.Subscript) and \
                isinstance(c.func.value.value, ast.Attribute) and c.func.value.value.attr == 'EquationBlock' and \
                const_str(c.func.value.slice) == key:
            res.append(c)
    return res


def ledger_writers(tree_or_func, keys=('F', 'INC')):
    """syntactic writers of the F / INC equations: (kind, key, node)"""
    out = []
    for c in ast.walk(tree_or_func):
        if isinstance(c, ast.Call):
            nm = call_name(c)
            if nm == 'AddTerm' and isinstance(c.func.value, ast.Subscript) and const_str(c.func.value.slice) in keys and \
                    'EquationBlock' in unparse(c.func.value.value):
                out.append(('AddTerm', const_str(c.func.value.slice), c))
            elif nm in ('AddVariable', 'SetEquationRightHandSide', 'AddTermToEquation') and c.args and const_str(c.args[0]) in keys:
                out.append((nm, const_str(c.args[0]), c))
            elif nm == 'AddVariableFromEquation' and c.args:
                out.append((nm, '?', c))
        if isinstance(c, (ast.Assign, ast.AugAssign)):
            ts = c.targets if isinstance(c, ast.Assign) else [c.target]
            for t in ts:
                b = t
                while isinstance(b, (ast.Attribute,)) and not (isinstance(b.value, ast.Subscript)):
                    b = b.value
                if isinstance(b, ast.Attribute) and isinstance(b.value, ast.Subscript) and const_str(b.value.slice) in keys and \
                        'EquationBlock' in unparse(b.value.value):
                    out.append(('store ' + b.attr, const_str(b.value.slice), c))
                if isinstance(t, ast.Subscript) and const_str(t.slice) in keys and ('EquationBlock' in unparse(t.value) or
                                                                                   unparse(t.value).endswith('.Equations')):
                    out.append(('block store', const_str(t.slice), c))
    return out


def who_may_write(prog, check, rule, cash):
    n = 0
    for f in prog.all_functions():
        ws = [w for w in ledger_writers(f.node) if w[0] != 'AddVariableFromEquation']
        for kind, key, node in ws:
            allowed = (f is cash) or (f.cls is not None and f.cls.name == 'Sector' and f.name == '__init__')
            n += 1
            check.ob(rule, '%s::writes(%s,%s)' % (f.key, key, kind), allowed, '%s:%d' % (f.module.rel, node.lineno),
                     'sanctioned writer' if allowed else 'the %s equation is written outside the constructor / cash-flow method' % key,
                     'any model: a flow written straight into F has no counter-entry and no income treatment')
    # Equation objects named F / INC created elsewhere
    for f in prog.all_functions():
        for c in ast.walk(f.node):
            if isinstance(c, ast.Call) and call_name(c) == 'Equation' and c.args and const_str(c.args[0]) in ('F', 'INC'):
                allowed = f.cls is not None and f.cls.name == 'Sector' and f.name == '__init__'
                n += 1
                check.ob(rule, '%s::creates-equation(%s)' % (f.key, const_str(c.args[0])), allowed, '%s:%d' % (f.module.rel, c.lineno),
                         'constructor creates the ledger equation' if allowed else 'a second definition of the ledger equation', '')
    ctrl = ast.parse("class X(Sector):\n    def _GenerateEquations(self):\n        self.EquationBlock['F'].AddTerm('+GIFT')\n")
    check.control('who-may-write control (foreign F writer is detected)', len(ledger_writers(ctrl)) == 1)
    return n


def run(prog, check):
    check.explanation = EXPLANATION
    check.not_decided = ('the value of the rendered equations over all registration histories (rests on C12); the string test for '
                         '"identically zero" (only the literal spellings \'\' and \'0.0\')')
    check.assumptions = ['terms passed to the cash-flow method are simple (the method raises otherwise)']
    cash = find_cashflow_method(prog)
    check.saw(cash)
    g = cfgmod.build(cash)
    params = cash.params()
    term_p = params[1]
    # ---- R1 ----------------------------------------------------------------------------------------
    fadds = [n for n in g.stmt_nodes() if n.kind == 'stmt' and block_addterm_nodes(n.ast, 'F')]
    iadds = [n for n in g.stmt_nodes() if n.kind == 'stmt' and block_addterm_nodes(n.ast, 'INC')]
    # the empty-term early return
    early = [n for n in g.stmt_nodes() if n.kind == 'stmt' and isinstance(n.ast, ast.Return) and
             isinstance(getattr(n.ast, '_parent', None), ast.If) and 'len(' in unparse(n.ast._parent.test)]
    paths = g.paths(g.entry, g.exit, cap=20000)
    bad = 0
    for p in paths:
        if any(g.nodes[i] in early for i in p):
            continue
        cnt = sum(1 for i in p if g.nodes[i] in fadds)
        if cnt != 1:
            bad += 1
    check.ob('C06.R1', '%s::F-entry-exactly-once' % cash.key, bad == 0 and bool(fadds), cash.where,
             'on each of %d normal paths past the empty-term return F.AddTerm runs exactly once' % len(paths) if bad == 0 else
             '%d path(s) record the flow in F zero or several times' % bad, 'any non-empty flow')
    for n in fadds:
        c = block_addterm_nodes(n.ast, 'F')[0]
        arg = c.args[0] if c.args else None
        # reaching definitions of the argument at this node: only the parameter or its strip()
        ok = isinstance(arg, ast.Name) and arg.id == term_p
        if ok:
            for a in g.stmt_nodes():
                if a.kind == 'stmt' and isinstance(a.ast, ast.Assign) and term_p in target_names(a.ast.targets[0]) and g.can_reach(a, n):
                    v = a.ast.value
                    if not (isinstance(v, ast.Call) and call_name(v) == 'strip' and unparse(v.func.value) == term_p):
                        ok = False
        check.ob('C06.R1', '%s::F-entry-is-the-signed-term' % cash.key, ok, '%s:%d' % (cash.module.rel, n.line),
                 'F receives the (stripped) signed term that was passed in' if ok else
                 'F receives something else than the signed term (e.g. the sign-stripped name)', "AddCashFlow('-T')")
    # ---- R2 ----------------------------------------------------------------------------------------
    flag = [p for p in params if 'income' in p.lower()]
    if len(flag) != 1:
        raise AnalysisError('income flag parameter not found')
    flag = flag[0]
    for n in iadds:
        ok = False
        for t in g.nodes:
            if t.kind == 'test' and isinstance(t.ast, ast.Name) and t.ast.id == flag and g.dominates(t, n):
                fe = [b for b, l in g.succ[t.id] if l is False]
                if n.id not in g.reach(fe, include_src=True):
                    ok = True
        c = block_addterm_nodes(n.ast, 'INC')[0]
        same = bool(fadds) and unparse(c.args[0]) == unparse(block_addterm_nodes(fadds[0].ast, 'F')[0].args[0])
        check.ob('C06.R2', '%s::INC-only-if-flag' % cash.key, ok and same, '%s:%d' % (cash.module.rel, n.line),
                 'INC receives the same term, only when the income flag is (still) set' if (ok and same) else
                 'INC entry not guarded by the income flag / receives a different term', 'is_income=False flows, excluded flows')
    # whenever the flag survives, INC is written: from the last flag test True edge every path hits the INC add
    last_tests = [t for t in g.nodes if t.kind == 'test' and isinstance(t.ast, ast.Name) and t.ast.id == flag]
    okall = False
    for t in last_tests:
        te = [b for b, l in g.succ[t.id] if l is True]
        if te and any(g.nodes[b] in iadds or g.must_pass(b, g.exit, iadds) for b in te) and any(g.dominates(t, n) for n in iadds):
            okall = True
    check.ob('C06.R2', '%s::INC-if-flag' % cash.key, okall, cash.where,
             'a surviving income flag always leads to the INC entry' if okall else 'an income flow can miss the INC entry',
             'is_income=True flow without exclusion')
    lowers = [n for n in g.stmt_nodes() if n.kind == 'stmt' and isinstance(n.ast, ast.Assign) and flag in target_names(n.ast.targets[0])]
    for n in lowers:
        v = n.ast.value
        is_false = isinstance(v, ast.Constant) and v.value is False
        loops = [l for l in n.loops if isinstance(l, ast.For)]
        cond_obj = cond_name = False
        if loops:
            lv = target_names(loops[-1].target)
            excl_ok = 'IncomeExclusions' in unparse(loops[-1].iter)
            for t in g.nodes:
                if t.kind == 'test' and g.dominates(t, n) and loops[-1] in t.loops:
                    fe = [b for b, l in g.succ[t.id] if l is False]
                    hdr = [h for h in g.nodes if h.kind == 'for' and h.stmt is loops[-1]][0]
                    if n.id in g.reach(fe, avoid={hdr.id}, include_src=True):
                        continue
                    for c in ([t.ast] if not isinstance(t.ast, ast.BoolOp) else t.ast.values):
                        if isinstance(c, ast.Compare) and isinstance(c.ops[0], (ast.Eq, ast.Is)):
                            l_, r_ = unparse(c.left), unparse(c.comparators[0])
                            pair = {l_, r_}
                            if pair in ({'%s.ID' % lv[0], 'self.ID'}, {lv[0], 'self'}):
                                cond_obj = True
                            if len(lv) > 1 and lv[1] in pair and any(x.endswith('.Term') for x in pair):
                                cond_name = True
            ok = is_false and excl_ok and cond_obj and cond_name
        else:
            ok = False
        check.ob('C06.R2', '%s::flag-lowered-only-by-matching-exclusion' % cash.key, ok, '%s:%d' % (cash.module.rel, n.line),
                 'flag set to False only under (exclusion is for this sector) and (excluded name == sign-stripped term)' if ok else
                 'the income flag is changed outside a matching exclusion of this sector (obj=%s, name=%s, False=%s)' % (cond_obj, cond_name, is_false),
                 "exclusion registered for another sector, or for 'DEM_GOOD' while the flow is '-DEM_GOODS'")
    # the scan over the exclusions is complete: it may stop early only after a match lowered the flag
    excl_loops = [l for l in ast.walk(cash.node) if isinstance(l, ast.For) and 'IncomeExclusions' in unparse(l.iter)]
    for l in excl_loops:
        stops = [n for n in g.stmt_nodes() if n.kind == 'stmt' and isinstance(n.ast, (ast.Break, ast.Return)) and l in n.loops]
        bad_stop = [n for n in stops if not any(g.dominates(lw, n) for lw in lowers)]
        filt = [n for n in g.nodes if n.kind == 'test' and l in n.loops and not any(
            g.dominates(n, lw) for lw in lowers)]
        check.ob('C06.R2', '%s::exclusion-scan-complete' % cash.key, not bad_stop, '%s:%d' % (cash.module.rel, l.lineno),
                 'every registered exclusion is examined until one matches' if not bad_stop else
                 'the scan over the exclusions can stop (line %s) before a matching exclusion was found' % [n.line for n in bad_stop],
                 'a sector with two exclusions, the flow matching the second one')
    if not excl_loops:
        check.ob('C06.R2', '%s::exclusion-scan-complete' % cash.key, False, cash.where, 'the income exclusions are never consulted',
                 'an excluded flow')
    # ---- R3 ----------------------------------------------------------------------------------------
    eqn_p = params[2] if len(params) > 2 else 'eqn'
    overw = [n for n in g.stmt_nodes() if n.kind == 'stmt' and any(isinstance(c, ast.Call) and call_name(c) == 'SetEquationRightHandSide'
                                                                   for c in ast.walk(n.ast))]
    creat = [n for n in g.stmt_nodes() if n.kind == 'stmt' and any(isinstance(c, ast.Call) and call_name(c) == 'AddVariable'
                                                                   for c in ast.walk(n.ast))]
    none_ret = False
    for t in g.nodes:
        if t.kind == 'test' and isinstance(t.ast, ast.Compare) and unparse(t.ast.left) == eqn_p and isinstance(t.ast.ops[0], ast.Is) and \
                unparse(t.ast.comparators[0]) == 'None':
            te = [b for b, l in g.succ[t.id] if l is True]
            r = g.reach(te, include_src=True)
            if not any(n.id in r for n in overw + creat) and all(g.dominates(t, n) for n in overw + creat):
                none_ret = True
    check.ob('C06.R3', '%s::no-definition-no-write' % cash.key, none_ret, cash.where,
             'without a defining expression the flow variable is neither created nor overwritten' if none_ret else
             'a flow registered without a definition can create / overwrite the variable', 'AddCashFlow(term) with eqn=None')
    for n in overw:
        ok_empty = ok_present = False
        for t in g.nodes:
            if t.kind != 'test' or not g.dominates(t, n):
                continue
            fe = [b for b, l in g.succ[t.id] if l is False]
            if n.id in g.reach(fe, include_src=True):
                continue
            e = t.ast
            parts = e.values if (isinstance(e, ast.BoolOp) and isinstance(e.op, ast.Or)) else [e]
            lits = []
            for c in parts:
                if isinstance(c, ast.Compare) and isinstance(c.ops[0], ast.Eq) and isinstance(c.comparators[0], ast.Constant):
                    lits.append(c.comparators[0].value)
            if lits and all(isinstance(x, str) and (x.strip() == '' or _is_zero(x)) for x in lits) and len(lits) == len(parts):
                ok_empty = True
            if isinstance(e, ast.Compare) and isinstance(e.ops[0], ast.In) and ('GetVariables' in unparse(e.comparators[0]) or
                                                                                'EquationBlock' in unparse(e.comparators[0])):
                ok_present = True
        check.ob('C06.R3', '%s::overwrite-only-if-empty-or-zero' % cash.key, ok_empty and ok_present, '%s:%d' % (cash.module.rel, n.line),
                 'an existing flow variable is overwritten only when its current right-hand side is empty / zero' if (ok_empty and ok_present)
                 else 'an existing, non-trivial definition of the flow variable can be overwritten', "a sector that already defines 'T = 0.2*INC'")
    for n in creat:
        ok = False
        for t in g.nodes:
            if t.kind == 'test' and g.dominates(t, n) and isinstance(t.ast, ast.Compare) and isinstance(t.ast.ops[0], ast.In):
                te = [b for b, l in g.succ[t.id] if l is True]
                if n.id not in g.reach(te, include_src=True):
                    ok = True
        check.ob('C06.R3', '%s::create-only-if-absent' % cash.key, ok, '%s:%d' % (cash.module.rel, n.line),
                 'the flow variable is created only when absent' if ok else 'AddVariable can replace an existing variable', 'existing flow variable')
    # the variable defined is the sign-stripped name of the term
    names_ok = all(any(isinstance(c, ast.Call) and call_name(c) in ('SetEquationRightHandSide', 'AddVariable') and c.args and
                       unparse(c.args[0]) == term_p for c in ast.walk(n.ast)) for n in overw + creat)
    strip_assign = [a for a in g.stmt_nodes() if a.kind == 'stmt' and isinstance(a.ast, ast.Assign) and term_p in target_names(a.ast.targets[0])
                    and unparse(a.ast.value).endswith('.Term')]
    dom = bool(strip_assign) and all(g.dominates(strip_assign[0], n) for n in overw + creat)
    check.ob('C06.R3', '%s::defined-name-is-sign-stripped' % cash.key, names_ok and dom, cash.where,
             'the variable defined is the sign-stripped term name' if (names_ok and dom) else
             'the variable defined is not the sign-stripped term name', "AddCashFlow('-T', 'x')")
    # ---- R4 ----------------------------------------------------------------------------------------
    E = prog.classes.get('Equation')
    at = E.methods.get('AddTerm') if E else None
    if at is None:
        raise AnalysisError('Equation.AddTerm not found')
    check.saw(at)
    ga = cfgmod.build(at)
    merges = [n for n in ga.stmt_nodes() if n.kind == 'stmt' and isinstance(n.ast, ast.AugAssign) and isinstance(n.ast.op, ast.Add)
              and unparse(n.ast.target).endswith('.Constant')]
    appends = [n for n in ga.stmt_nodes() if n.kind == 'stmt' and any(isinstance(c, ast.Call) and call_name(c) == 'append' and
                                                                     'TermList' in unparse(c.func.value) for c in ast.walk(n.ast))]
    paths = ga.paths(ga.entry, ga.exit, cap=20000)
    bad = 0
    for p in paths:
        k = sum(1 for i in p if ga.nodes[i] in merges or ga.nodes[i] in appends)
        if k != 1:
            bad += 1
    check.ob('C06.R4', '%s::merge-xor-append' % at.key, bad == 0 and bool(paths), at.where,
             'each of %d normal paths merges once or appends once' % len(paths) if bad == 0 else
             '%d path(s) neither merge nor append (term lost) or do both (term counted twice)' % bad, 'repeated / cancelling flows')
    for n in merges:
        ok = False
        val_ok = unparse(n.ast.value).endswith('.Constant')
        for t in ga.nodes:
            if t.kind == 'test' and ga.dominates(t, n):
                for c in ([t.ast] if not isinstance(t.ast, ast.BoolOp) else t.ast.values):
                    if isinstance(c, ast.Compare) and isinstance(c.ops[0], ast.Eq) and unparse(c.left).endswith('.Term') and \
                            unparse(c.comparators[0]).endswith('.Term') and unparse(c.left) != unparse(c.comparators[0]):
                        ok = True
        check.ob('C06.R4', '%s::merge-only-equal-text' % at.key, ok and val_ok, '%s:%d' % (at.module.rel, n.line),
                 'coefficients are added only for textually equal terms' if (ok and val_ok) else
                 'coefficients are merged for terms that are not textually equal (or the added amount is not the new coefficient)',
                 "flows '+T' then '+TX'")
    # the appended object is the new term
    for n in appends:
        c = [c for c in ast.walk(n.ast) if isinstance(c, ast.Call) and call_name(c) == 'append'][0]
        ok = isinstance(c.args[0], ast.Name) and c.args[0].id == at.params()[1]
        check.ob('C06.R4', '%s::append-the-new-term' % at.key, ok, '%s:%d' % (at.module.rel, n.line), 'the new term is appended', '')
    # ---- W -----------------------------------------------------------------------------------------
    who_may_write(prog, check, 'C06.W', cash)
    check.floor('C06.R1', 2)
    check.floor('C06.R2', 4)
    check.floor('C06.R3', 4)
    check.floor('C06.R4', 3)
    check.floor('C06.W', 4)


def _is_zero(s):
    try:
        return float(s) == 0.0
    except ValueError:
        return False
