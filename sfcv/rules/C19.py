"""C19 - tab-delimited output is a faithful table of the results (decided structural clauses).

R1 permutation        : the ordering helper is evaluated in a small list algebra (sfcv/listalg.py): every returning path
                        must yield [stored priority names, in priority order] + [the other stored names, sorted]; the
                        priority order itself is one literal of distinct names (the same for every holder).
R2 same table         : the renderer is evaluated to a canonical table term (sfcv/tableterm.py): header line = the
                        tab-joined column sequence, then one line per i in range(0, min length) holding
                        `format % (self[v][i],)` for v in the same sequence; compared up to bound-variable names.
R3 horizon+1 rows     : the solve loop runs range(1, MaxTime+1) and every partition is appended once per step
                        (same formulation as C10.R1 / C10.R2).
R4 reads do not write : no accessor or renderer of the results mutates a stored series (alias analysis shared with C16.R2)."""
import ast

from .. import cfg as cfgmod
from ..loader import AnalysisError, unparse, call_name
from ..dataflow import single_assign_subst, target_names, linform, lin_eq, resolve_expr
from ..cfg import atomic_facts
from ..solver_model import solver_function
from .C10 import check_bounds
from .C16 import discover_accessors

TECHNIQUE = ('static analysis: abstract evaluation of the ordering helper in a list algebra over (order, membership) segments; symbolic evaluation of the renderer to a canonical table term (map fusion of comprehensions, append loops and += accumulation; alpha-equivalence with the stated table); parameter flow of the cell format; pass-through check of wrappers; loop-bound facts of the solve loop; alias analysis of accessors (shared with C16.R2); the variable-list coherence clause of C17.R1 recorded as R3')
EXPLANATION = (
    'The ordering helper is evaluated abstractly: lists are concatenations of (order, membership predicate) segments over '
    'the atoms "is a stored name" / "is a priority name", loops that append / remove the loop element under membership tests '
    'are applied exactly, and every returning path must yield the stated order. The renderer is evaluated symbolically to a '
    'term in which comprehensions, append loops and text accumulation are all maps; the returned text is cut into line groups '
    'and must equal header + one line of `format % (value,)` cells per period up to the shortest series, for the same column '
    'sequence. The horizon+1 row count follows from the solve loop bound. Round-trip precision of values is not decided.')


def _is_priority(e):
    return isinstance(e, ast.Attribute) and e.attr == 'SortPriority'


def _ancestors(n):
    p_ = getattr(n, '_parent', None)
    while p_ is not None:
        yield p_
        p_ = getattr(p_, '_parent', None)


def order_by_sort_key(check, h, call, subst):
    """one sort of all keys with the compound key (priority rank or a rank after all priorities, name)"""
    keyf = [k.value for k in call.keywords if k.arg == 'key'][0]
    body = None
    param = None
    if isinstance(keyf, ast.Lambda):
        body, param = keyf.body, keyf.args.args[0].arg
    elif isinstance(keyf, ast.Name):
        for n in ast.walk(h.node):
            if isinstance(n, ast.FunctionDef) and n.name == keyf.id and n is not h.node:
                rs = [r for r in ast.walk(n) if isinstance(r, ast.Return)]
                if len(rs) == 1:
                    body, param = rs[0].value, n.args.args[0].arg
    if body is None:
        raise AnalysisError('ordering helper: sort key not understood')
    # rank table: dict((name, pos) for pos, name in enumerate(SortPriority)) / {name: pos for ...}
    rank_names = set()
    for n in ast.walk(h.node):
        if isinstance(n, ast.Assign) and len(n.targets) == 1 and isinstance(n.targets[0], ast.Name) and 'enumerate' in unparse(n.value) \
                and 'SortPriority' in unparse(n.value):
            rank_names.add(n.targets[0].id)
    ok, why = False, 'sort key `%s` is not (priority rank, name)' % unparse(body)
    if isinstance(body, ast.Tuple) and len(body.elts) == 2 and unparse(body.elts[1]) == param:
        r = body.elts[0]
        r = resolve_expr(r, {k: v for k, v in subst.items() if k not in rank_names})
        is_rank_table = isinstance(r, ast.Call) and isinstance(r.func, ast.Attribute) and (
            (isinstance(r.func.value, ast.Name) and r.func.value.id in rank_names) or
            ('enumerate' in unparse(r.func.value) and 'SortPriority' in unparse(r.func.value)))
        if is_rank_table and r.func.attr == 'get' and len(r.args) == 2 and unparse(r.args[0]) == param:
            d = resolve_expr(r.args[1], subst)
            last = unparse(d).startswith('len(') or (isinstance(d, ast.Constant) and isinstance(d.value, (int, float)) and d.value >= 1000)
            ok = bool(last)
            why = 'names are sorted by (priority rank, or a rank after all priorities; name)' if ok else \
                'names without priority get the rank `%s`, which does not come after every priority rank' % unparse(d)
        elif isinstance(r, ast.BoolOp) and isinstance(r.op, ast.Or):
            why = ('the rank is `%s`: the first priority name has rank 0, which `or` treats as "no rank", so it is sorted among the '
                   'ordinary names' % unparse(r))
    check.ob('C19.R1', '%s::priority-part' % h.key, ok, h.where, why,
             "a holder with 'iteration', 'iteration_error', 'iteration_abs_change', 'k' and 't' (the step trace)")
    check.ob('C19.R1', '%s::rest-sorted-without-priority' % h.key, ok, h.where,
             'one sort over all keys: every stored series exactly once' if ok else why, 'many names')
    check.ob('C19.R1', '%s::returns-priority-then-rest' % h.key, True, h.where, 'returns ' + unparse(call)[:60], '')


def order_helper(check, h, prog=None):
    """R1: the helper returns  [priority names present, in SortPriority order] + [the other keys, sorted]"""
    if prog is not None:
        from ..inline import flatten
        h = flatten(prog, h)
    g = cfgmod.build(h)
    subst = single_assign_subst(h.node)
    rets = [n for n in ast.walk(h.node) if isinstance(n, ast.Return) and n.value is not None and
            not any(isinstance(p_, (ast.FunctionDef, ast.Lambda)) and p_ is not h.node for p_ in _ancestors(n))]
    if len(rets) == 1 and isinstance(rets[0].value, ast.Call) and call_name(rets[0].value) == 'sorted' and rets[0].value.args and \
            'self' in unparse(rets[0].value.args[0]) and any(k.arg == 'key' for k in rets[0].value.keywords):
        return order_by_sort_key(check, h, rets[0].value, subst)
    from ..listalg import ListEval, EXPECTED, norm, seg_text
    le = ListEval(h.node)
    results = le.run()
    if not results:
        raise AnalysisError('ordering helper: no returning path')
    pri_bad, rest_bad, shape_bad = [], [], []
    for segs, feasible, line, note in results:
        where = '%s:%d' % (h.module.rel, line)
        if segs is None:
            shape_bad.append((where, 'the list returned here cannot be followed (%s)' % note))
            continue
        exp = norm(EXPECTED, feasible)
        pri = tuple(sg for sg in segs if sg[1] & frozenset([(True, True), (False, True)]) and not sg[1] - frozenset([(True, True), (False, True)]))
        exp_pri = tuple(sg for sg in exp if sg[0] == 'P')
        # leading part: everything up to the first segment that holds a non-priority name
        lead = []
        for sg in segs:
            if sg[1] - frozenset([(True, True), (False, True)]):
                break
            lead.append(sg)
        tail = segs[len(lead):]
        if tuple(lead) != exp_pri:
            pri_bad.append((where, 'the leading columns are %s, required %s' % (seg_text(lead), seg_text(exp_pri))))
        exp_rest = tuple(sg for sg in exp if sg[0] != 'P')
        if tuple(tail) != exp_rest:
            rest_bad.append((where, 'after the priority columns come %s, required %s' % (seg_text(tail), seg_text(exp_rest))))
    for line, msg in le.problems:
        shape_bad.append(('%s:%d' % (h.module.rel, line), msg))
    wit = "a holder with 'iteration', 'iteration_error', 'iteration_abs_change', 'k' and 't' (the step trace)"
    check.ob('C19.R1', '%s::priority-part' % h.key, not pri_bad, pri_bad[0][0] if pri_bad else h.where,
             'on every returning path the leading columns are the stored priority names in priority order' if not pri_bad else
             '; '.join(sorted({x[1] for x in pri_bad}))[:500], wit)
    check.ob('C19.R1', '%s::rest-sorted-without-priority' % h.key, not rest_bad, rest_bad[0][0] if rest_bad else h.where,
             'on every returning path the rest is the other stored names, sorted, each once' if not rest_bad else
             '; '.join(sorted({x[1] for x in rest_bad}))[:500], 'many names: each stored series exactly once, the rest alphabetically')
    check.ob('C19.R1', '%s::returns-priority-then-rest' % h.key, not shape_bad, shape_bad[0][0] if shape_bad else h.where,
             '%d returning path(s) evaluated in the list algebra' % len(results) if not shape_bad else
             '; '.join(sorted({x[1] for x in shape_bad}))[:500], wit)


def priority_is_fixed(prog, check, h):
    """the priority order is the same for every holder: one writer, a literal of distinct constants"""
    writers = []
    for f in prog.all_functions():
        for n in ast.walk(f.node):
            if isinstance(n, ast.Assign):
                for t in n.targets:
                    if isinstance(t, ast.Attribute) and t.attr == 'SortPriority':
                        writers.append((f, n))
            elif isinstance(n, ast.AugAssign) and isinstance(n.target, ast.Attribute) and n.target.attr == 'SortPriority':
                writers.append((f, n))
    cls_level = []
    if h.cls is not None:
        for c in h.cls.mro:
            node = getattr(c, 'node', None)
            if node is None:
                continue
            for st in node.body:
                if isinstance(st, ast.Assign) and any(isinstance(t, ast.Name) and t.id == 'SortPriority' for t in st.targets):
                    cls_level.append((c, st))
    vals = [n.value for f, n in writers if isinstance(n, ast.Assign)] + [st.value for c, st in cls_level]
    ok, why = True, ''
    if not vals:
        ok, why = False, 'no definition of the priority order found'
    if any(isinstance(n, ast.AugAssign) for f, n in writers):
        ok, why = False, 'the priority order is extended in place'
    for v in vals:
        if isinstance(v, ast.Name):
            mod = h.module
            for st in mod.tree.body:
                if isinstance(st, ast.Assign) and any(isinstance(t, ast.Name) and t.id == v.id for t in st.targets):
                    v = st.value
        if not (isinstance(v, (ast.Tuple, ast.List)) and all(isinstance(e, ast.Constant) and isinstance(e.value, str) for e in v.elts)):
            ok, why = False, 'the priority order `%s` is not a literal of names: it differs between holders' % unparse(v)[:80]
        elif len({e.value for e in v.elts}) != len(v.elts):
            ok, why = False, 'the priority order names a column twice'
    if len(vals) > 1 and len({unparse(v) for v in vals}) > 1:
        ok, why = False, 'the priority order has %d different definitions' % len(vals)
    where = ('%s:%d' % (writers[0][0].module.rel, writers[0][1].lineno)) if writers else h.where
    check.ob('C19.R1', '%s::priority-order-is-one-literal' % h.key, ok, where,
             'the priority order is one literal of distinct names, the same for every holder' if ok else why,
             'the step-trace holder vs the main holder: same leading columns')


def iteration_sites(fn_node):
    """[(target names, iterated expression, scope in which the targets are bound, node)] for `for` statements and
    comprehension generators alike"""
    out = []
    for n in ast.walk(fn_node):
        if isinstance(n, ast.For):
            out.append((target_names(n.target), n.iter, n, n))
        elif isinstance(n, (ast.ListComp, ast.GeneratorExp, ast.SetComp)):
            for gen in n.generators:
                out.append((target_names(gen.target), gen.iter, n, gen))
    return out


def run(prog, check):
    check.explanation = EXPLANATION
    check.not_decided = 'round-trip precision of formatted values (depends on the format string chosen by the caller)'
    check.assumptions = []
    acc = discover_accessors(prog)
    holder_r = [f for f in acc['renderer'] if f.cls is not None and any(c.name == 'dict' or c.name == 'TimeSeriesHolder'
                                                                        for c in f.cls.mro) and 'format_str' in f.params()
                or (f.cls is not None and f.cls.name == 'TimeSeriesHolder')]
    if len(holder_r) != 1:
        raise AnalysisError('series-holder renderer not found: %s' % [f.qualname for f in holder_r])
    r = holder_r[0]
    helpers = [h for h in acc['helper'] if h.cls is r.cls]
    if len(helpers) != 1:
        raise AnalysisError('ordering helper not found')
    h = helpers[0]
    check.saw(r)
    check.saw(h)
    # ---- R1 ----------------------------------------------------------------------------------------
    order_helper(check, h, prog)
    priority_is_fixed(prog, check, h)
    # ---- R2 ----------------------------------------------------------------------------------------
    from ..tableterm import TableEval, line_groups, expected_groups, alpha_eq, show, SEQ
    fmt_param = [p for p in r.params() if 'format' in p.lower()]
    if len(fmt_param) != 1:
        raise AnalysisError('renderer: the cell format parameter cannot be identified (%s)' % fmt_param)
    te = TableEval(r.node, h.name, fmt_param)
    rets = te.run(r.params())
    if not rets:
        raise AnalysisError('renderer: no returning path')
    exp = expected_groups(fmt_param[0])
    bad = {k: [] for k in ('header-from-sequence', 'rows-iterate-same-sequence', 'row-count-is-min-length', 'cell-format-is-parameter',
                           'tab-and-newline', 'cells-joined-as-formatted', 'empty-table')}
    for term, assum, line in rets:
        where = '%s:%d' % (r.module.rel, line)
        if assum.get('empty') is True:
            if term != ('str', ''):
                bad['empty-table'].append((where, 'without series the text is %s' % show(term)[:120]))
            continue
        groups = line_groups(term) if term[0] in ('cat', 'str', 'join', 'rep') else None
        if groups is None:
            bad['tab-and-newline'].append((where, 'the text returned here is not a sequence of newline-terminated lines built from the series: %s' % show(term)[:200]))
            continue
        if not groups or not alpha_eq(groups[0], exp[0]):
            bad['header-from-sequence'].append((where, 'first line is `%s`, required the tab-joined column sequence' % (show(groups[0])[:160] if groups else 'missing')))
        rows = [g_ for g_ in groups[1:] if g_[0] == 'lines']
        if len(groups) != 2 or len(rows) != 1:
            bad['cells-joined-as-formatted'].append((where, 'the text has the line groups %s, required header + one line per period' % [show(g_)[:80] for g_ in groups]))
            continue
        row = rows[0]
        body = row[2]
        per_col = body[0] == 'join' and body[1] == ('str', '\t') and body[2][0] == 'map' and body[2][3] == SEQ
        if body[0] == 'join' and body[1] != ('str', '\t'):
            bad['tab-and-newline'].append((where, 'cells are joined by %s' % show(body[1])))
        elif not per_col:
            bad['rows-iterate-same-sequence'].append((where, 'a row is `%s`: it does not hold one cell per column of the header sequence' % show(body)[:200]))
        if not alpha_eq(row[3], exp[1][3]):
            bad['row-count-is-min-length'].append((where, 'rows run over `%s`, required range(0, min length of all series)' % show(row[3])[:160]))
        if per_col:
            cell = body[2][2]
            want = ('fmt', ('param', fmt_param[0]), ('cell', body[2][1], row[1]))
            if cell != want:
                if cell[0] == 'fmt' and cell[1] == want[1] and cell[2][0] == 'cell' and cell[2] != want[2]:
                    bad['rows-iterate-same-sequence'].append((where, 'the cell of column a, row b is `%s`' % show(cell)[:160]))
                elif cell[0] in ('fmt', 'fmt1') and cell[2] == want[2]:
                    bad['cell-format-is-parameter'].append((where, 'a cell is `%s`, required `%s %% (value,)`' % (show(cell)[:160], fmt_param[0])))
                else:
                    bad['cells-joined-as-formatted'].append((where, 'a cell is `%s`, required `%s %% (value,)` unchanged' % (show(cell)[:160], fmt_param[0])))
    good = {'header-from-sequence': 'the first line is the tab-joined column sequence',
            'rows-iterate-same-sequence': 'every row holds, for each column of the header sequence in that order, the value of that series at the row index',
            'row-count-is-min-length': 'rows = range(0, min(len of every stored series))',
            'cell-format-is-parameter': 'each cell is `%s %% (value,)`' % fmt_param[0],
            'tab-and-newline': 'cells are tab-joined, every line newline-terminated',
            'cells-joined-as-formatted': 'the text is exactly header + one line of formatted cells per period',
            'empty-table': 'without series the text is empty'}
    wit = {'header-from-sequence': 'any names', 'rows-iterate-same-sequence': 'ragged / many series',
           'row-count-is-min-length': 'ragged series: one row per period up to the shortest series (no IndexError, no dropped rows)',
           'cell-format-is-parameter': "format '%.12g' / tuple-valued cells", 'tab-and-newline': 'parsing the text back',
           'cells-joined-as-formatted': "exponent notation: '1.5e+10'.rstrip('0') is '1.5e+1'", 'empty-table': 'a holder without series'}
    for k in ('header-from-sequence', 'rows-iterate-same-sequence', 'row-count-is-min-length', 'cell-format-is-parameter',
              'tab-and-newline', 'cells-joined-as-formatted', 'empty-table'):
        b_ = bad[k]
        check.ob('C19.R2', '%s::%s' % (r.key, k), not b_, b_[0][0] if b_ else r.where,
                 good[k] if not b_ else '; '.join(sorted({x[1] for x in b_}))[:600], wit[k])
    check.note('C19.R2 %s: %d returning paths evaluated to table terms' % (r.qualname, len(rets)))
    # every other method of that name is a plain pass-through to this renderer (no remembered text)
    for fo in prog.all_functions():
        if fo.name == r.name and fo is not r and fo.key != r.key and '/deprecated/' not in fo.module.rel and fo not in acc['wrapper'] \
                and fo.key not in [w_.key for w_ in acc['wrapper']]:
            check.saw(fo)
            check.ob('C19.R2', '%s::wrapper-is-pass-through' % fo.key, False, fo.where,
                     'the table text returned is not always the rendering of the current series (a remembered text can be returned)',
                     'rendering, stepping the solver, rendering again')
    # wrapper passes the format through
    for w in acc['wrapper']:
        check.saw(w)
        ok = False
        for n in ast.walk(w.node):
            if isinstance(n, ast.Call) and call_name(n) == r.name:
                fp = [p for p in w.params() if 'format' in p.lower()]
                ok = bool(fp) and any(isinstance(a, ast.Name) and a.id == fp[0] for a in list(n.args) + [k.value for k in n.keywords])
        check.ob('C19.R2', '%s::wrapper-forwards-format' % w.key, ok, w.where,
                 'the solver-level wrapper forwards its format parameter' if ok else 'the wrapper drops the requested format',
                 "GenerateCSVtext('%.10f')")
    # ---- R3 ----------------------------------------------------------------------------------------
    sa = solver_function(prog, 'solve_all')
    check.saw(sa)
    check_bounds(check, sa, single_assign_subst(sa.node), rule='C19.R3')
    # ---- R4: reading the results does not change them ---------------------------------------------------------------
    # the table is rendered from the stored series: an accessor or renderer that mutates a stored list (a window cut with pop / del
    # on the list itself) shortens or shifts the columns of every table rendered afterwards (rule shared with C16.R2)
    from .C16 import check_accessor, Summaries
    summ = Summaries(prog)
    for role in ('series', 'renderer', 'helper'):
        for f_ in acc[role]:
            check_accessor(prog, check, f_, role, summ, pid_rules=(None, 'C19.R4'))
    check.floor('C19.R4', 1)
    # the table reaches the 'timeseries' log: wherever a function writes it and closes the logs, the write comes first
    for f_ in prog.all_functions():
        if '/deprecated/' in f_.module.rel:
            continue
        for blk_owner in ast.walk(f_.node):
            for fld in ('body', 'orelse', 'finalbody'):
                blk = getattr(blk_owner, fld, None)
                if not (isinstance(blk, list) and blk and isinstance(blk[0], ast.stmt)):
                    continue
                i_log = [i_ for i_, st_ in enumerate(blk) if isinstance(st_, ast.Expr) and isinstance(st_.value, ast.Call) and
                         call_name(st_.value) == 'Logger' and any(isinstance(a_, ast.Constant) and a_.value == 'timeseries'
                                                                 for a_ in list(st_.value.args) + [k_.value for k_ in st_.value.keywords])]
                i_close = [i_ for i_, st_ in enumerate(blk) if isinstance(st_, ast.Expr) and isinstance(st_.value, ast.Call) and
                           call_name(st_.value) == 'cleanup']
                if i_log and i_close:
                    okl = max(i_log) < min(i_close)
                    check.saw(f_)
                    check.ob('C19.R2', '%s::table-logged-before-logs-close' % f_.key, okl, '%s:%d' % (f_.module.rel, blk[i_log[0]].lineno),
                             'the table is written to the timeseries log before the logs are closed' if okl else
                             'the logs are closed before the table is written: the timeseries log of a successful run stays empty',
                             "Model.main(base_file_name=...) with the 'timeseries' log registered")
    # the header names the series of the block that was solved: the solver's variable list is rebuilt when a new block is parsed
    # (the clause C17.R1 decides; a stale list seeds columns of a block that is gone and breaks the horizon+1 rows)
    if not getattr(check, '_borrowing', False):
        from ..report import Borrowed
        from . import C17 as _c17
        b17 = Borrowed(check, lambda rule, key: rule == 'C17.R1', 'C19.R3', 'one solver object given a second, different block and solved again')
        b17.run_lender(_c17, prog)
    check.floor('C19.R1', 3)
    check.floor('C19.R2', 7)
    check.floor('C19.R3', 1)
