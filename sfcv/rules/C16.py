"""C16 - reading results never changes them.

R1 no escape      : an accessor returns fresh objects on every path, never a may-alias of stored state.
R2 no mutation    : no mutator / store through a may-alias of stored state inside an accessor.
R3 right window   : the slice bound is cutoff+1 (default cutoff from the model when None); time-zero
                    suppression removes exactly element 0 of the fresh list."""
import ast

from ..inline import flatten

from .. import cfg as cfgmod
from ..dataflow import (resolve_expr, AliasAnalysis, ALIAS, mutations_in, own_exprs, linform, lin_eq, lin_str,
                        single_assign_subst)
from ..loader import AnalysisError, unparse, call_name

EXPLANATION = (
    'Flow-sensitive may-alias/escape analysis over the CFG of every result accessor (series getter, table '
    'renderers and their helper/wrapper methods): return values must be fresh objects, no mutator may be applied '
    'to an alias of stored state, and the series window must be [0:cutoff+1] with time-zero suppression removing '
    'exactly index 0 of the fresh copy. Holds for every call history because the rule is over all paths of the '
    'accessor code, not over sampled calls.')


TECHNIQUE = ('static analysis: flow-sensitive may-alias/escape dataflow over the CFG of each public accessor with its private helpers inlined; linear-form normalisation of slice bounds with temporaries resolved')


def _has_return_value(f):
    return any(isinstance(n, ast.Return) and n.value is not None for n in ast.walk(f.node))


def discover_accessors(prog):
    """role-based discovery; returns {role: [FuncInfo]}"""
    series, renderers, wrappers, helpers = [], [], [], []
    for f_raw in prog.all_functions():
        if not _has_return_value(f_raw):
            continue
        # public entry points are judged with their private helpers inlined; a private helper is part of its callers
        if f_raw.name.startswith('_') and not f_raw.name.startswith('__') and f_raw.cls is not None and f_raw.cls.name == 'Model':
            continue
        f = flatten(prog, f_raw)
        body = f.node
        reads_ts = any(isinstance(n, ast.Attribute) and n.attr == 'TimeSeries' and isinstance(n.ctx, ast.Load)
                       for n in ast.walk(body))
        tab_join = any(isinstance(n, ast.Call) and call_name(n) == 'join' and isinstance(n.func, ast.Attribute)
                       and isinstance(n.func.value, ast.Constant) and n.func.value.value == '\t'
                       for n in ast.walk(body))
        if f.cls is not None and f.cls.name == 'Model' and reads_ts:
            series.append(f)
        if tab_join:
            renderers.append(f)
    rnames = {f.name for f in renderers}
    for f in prog.all_functions():
        if f in renderers or f in series:
            continue
        rets = [n for n in ast.walk(f.node) if isinstance(n, ast.Return) and n.value is not None]
        if rets and all(isinstance(r.value, ast.Call) and call_name(r.value) in rnames for r in rets):
            wrappers.append(f)
    # helpers: same-class methods called on self by a renderer and returning a value
    for r in renderers:
        if r.cls is None:
            continue
        for c in ast.walk(r.node):
            if isinstance(c, ast.Call) and isinstance(c.func, ast.Attribute) and \
                    isinstance(c.func.value, ast.Name) and c.func.value.id == 'self':
                m = prog.resolve_method(r.cls, c.func.attr)
                if m is not None and _has_return_value(m) and m not in helpers and m not in renderers:
                    helpers.append(m)
    return {'series': series, 'renderer': renderers, 'wrapper': wrappers, 'helper': helpers}


class Summaries(object):
    """'returns fresh' summaries of package functions, computed on demand from their own alias analysis"""

    def __init__(self, prog):
        self.prog = prog
        self.cache = {}

    def returns_fresh_call(self, call):
        nm = call_name(call)
        if nm is None:
            return None
        defs = self.prog.definitions_of(nm)
        if not defs:
            return None
        res = [self.of(f) for f in defs]
        if all(r is True for r in res):
            return True
        if any(r is False for r in res):
            return False
        return None

    def of(self, f):
        if f.key in self.cache:
            return self.cache[f.key]
        self.cache[f.key] = None      # recursion guard
        g = cfgmod.build(f)
        aa = AliasAnalysis(g, f.node, self.prog, f.cls, returns_fresh=self.returns_fresh_call)
        ok = True
        for n in g.stmt_nodes(lambda n: isinstance(n.ast, ast.Return)):
            if n.ast.value is not None and ALIAS in aa.tags(n.ast.value, n):
                ok = False
        self.cache[f.key] = ok
        return ok


def check_accessor(prog, check, f, role, summ, pid_rules=('C16.R1', 'C16.R2')):
    check.saw(f)
    g = cfgmod.build(f)
    aa = AliasAnalysis(g, f.node, prog, f.cls, returns_fresh=summ.returns_fresh_call)
    r1, r2 = pid_rules
    for n in g.stmt_nodes(lambda n: isinstance(n.ast, ast.Return)):
        if n.ast.value is None:
            continue
        tags = aa.tags(n.ast.value, n)
        check.ob(r1, '%s::return(%s)' % (f.key, unparse(n.ast.value)), ALIAS not in tags,
                 '%s:%d' % (f.module.rel, n.line),
                 'returned object may be the stored object itself' if ALIAS in tags else 'fresh on every path',
                 'caller mutates the returned list, or reads twice: later reads change')
    nmut = 0
    for n in g.stmt_nodes():
        for ex in own_exprs(n):
            if n.kind == 'stmt' and isinstance(ex, (ast.For, ast.While, ast.If, ast.Try, ast.With)):
                continue
            for kind, recv, mnode in mutations_in(ex):
                tags = aa.tags(recv, n)
                nmut += 1
                bad = ALIAS in tags
                check.ob(r2, '%s::%s(%s)' % (f.key, kind, unparse(recv)), not bad,
                         '%s:%d' % (f.module.rel, getattr(mnode, 'lineno', n.line)),
                         'mutates an object that may be stored state' if bad else 'receiver is a fresh local object',
                         'second retrieval/rendering after the first call sees changed stored results')
    return g, aa


def check_window(prog, check, f):
    """C16.R3 on the series accessor"""
    fn = f.node
    params = f.params()
    subst = single_assign_subst(fn)
    # the cutoff parameter: the one compared with None and re-assigned from a self attribute
    cutoff = None
    default_ok = False
    for n in ast.walk(fn):
        if isinstance(n, ast.If) and isinstance(n.test, ast.Compare) and isinstance(n.test.left, ast.Name) \
                and n.test.left.id in params and len(n.test.ops) == 1 and isinstance(n.test.ops[0], ast.Is) \
                and isinstance(n.test.comparators[0], ast.Constant) and n.test.comparators[0].value is None:
            for st in n.body:
                if isinstance(st, ast.Assign) and len(st.targets) == 1 and isinstance(st.targets[0], ast.Name) \
                        and st.targets[0].id == n.test.left.id and isinstance(st.value, ast.Attribute) \
                        and isinstance(st.value.value, ast.Name) and st.value.value.id == 'self':
                    cutoff = n.test.left.id
                    default_ok = True
    if cutoff is None:
        cands = [p for p in params if 'cutoff' in p.lower()]
        cutoff = cands[0] if cands else None
    check.ob('C16.R3', f.key + '::default-cutoff', default_ok, f.where,
             'cutoff defaults to the model attribute when None' if default_ok else
             'no `if cutoff is None: cutoff = self.<attr>` defaulting found',
             'Model.TimeSeriesCutoff set, GetTimeSeries called without cutoff')
    if cutoff is None:
        raise AnalysisError('C16.R3: cannot identify the cutoff parameter of ' + f.qualname)
    # slices of the stored series
    nslices = 0
    nocut = {k: v for k, v in subst.items() if k != cutoff}
    for n in ast.walk(fn):
        if isinstance(n, ast.Subscript) and isinstance(n.slice, ast.Slice) and cutoff in {
                x.id for x in ast.walk(resolve_expr(n.slice, nocut)) if isinstance(x, ast.Name)}:
            nslices += 1
            sl = n.slice
            lo_ok = sl.lower is None or lin_eq(linform(sl.lower, subst), {'': 0})
            want = {cutoff: 1, '': 1}
            up = linform(sl.upper, {k: v for k, v in subst.items() if k != cutoff}) if sl.upper is not None else None
            up_ok = lin_eq(up, want)
            step_ok = sl.step is None
            check.ob('C16.R3', f.key + '::window', lo_ok and up_ok and step_ok,
                     '%s:%d' % (f.module.rel, n.lineno),
                     'slice is [%s:%s], required [0:%s+1]' % (unparse(sl.lower) or '0', lin_str(up), cutoff),
                     'any cutoff: caller receives cutoff+1 points k=0..cutoff')
    check.ob('C16.R3', f.key + '::window-present', nslices >= 1, f.where,
             'a slice bounded by the cutoff exists' if nslices else 'the cutoff never bounds a slice: it is ignored',
             'cutoff smaller than the horizon')
    # time-zero suppression
    found = 0
    for n in ast.walk(fn):
        if isinstance(n, ast.If) and any(isinstance(x, ast.Attribute) and 'upress' in x.attr for x in ast.walk(n.test)):
            found += 1
            removals = []
            for st in n.body:
                for x in ast.walk(st):
                    if isinstance(x, ast.Call) and isinstance(x.func, ast.Attribute) and x.func.attr == 'pop':
                        ok = len(x.args) == 1 and lin_eq(linform(x.args[0]), {'': 0})
                        removals.append(('pop(%s)' % ', '.join(unparse(a) for a in x.args), ok))
                    elif isinstance(x, ast.Delete):
                        for t in x.targets:
                            ok = isinstance(t, ast.Subscript) and not isinstance(t.slice, ast.Slice) and \
                                lin_eq(linform(t.slice), {'': 0})
                            removals.append(('del ' + unparse(t), ok))
                    elif isinstance(x, ast.Assign) and isinstance(x.value, ast.Subscript) and \
                            isinstance(x.value.slice, ast.Slice):
                        sl = x.value.slice
                        ok = sl.upper is None and sl.step is None and sl.lower is not None and \
                            lin_eq(linform(sl.lower), {'': 1})
                        removals.append((unparse(x), ok))
            ok = len(removals) == 1 and removals[0][1]
            check.ob('C16.R3', f.key + '::suppress-time-zero', ok, '%s:%d' % (f.module.rel, n.lineno),
                     'suppression removes: %s (required: exactly the first element, once)' % (
                         [r[0] for r in removals],),
                     'suppression flag on: result must be points 1..cutoff')
            # the branch is not inverted
            neg = isinstance(n.test, ast.UnaryOp) and isinstance(n.test.op, ast.Not)
            check.ob('C16.R3', f.key + '::suppress-polarity', not neg, '%s:%d' % (f.module.rel, n.lineno),
                     'removal happens when the flag is set' if not neg else 'removal happens when the flag is NOT set',
                     'suppression flag off: k=0 point must be kept')
    check.ob('C16.R3', f.key + '::suppress-present', found >= 1, f.where,
             'suppression branch present' if found else 'suppression flag is never consulted', 'suppression flag on')


def run(prog, check):
    check.explanation = EXPLANATION
    check.not_decided = 'nothing material: the property is structural (values themselves are not inspected)'
    check.assumptions = ['callees not defined in the package (builtins, str/dict methods) return fresh values',
                         'elements of series lists are immutable numbers']
    acc = discover_accessors(prog)
    if not acc['series']:
        raise AnalysisError('no series accessor found (a Model method reading .TimeSeries and returning a value)')
    if len(acc['renderer']) < 2:
        raise AnalysisError('expected at least two tab-delimited renderers, found %d' % len(acc['renderer']))
    summ = Summaries(prog)
    n = 0
    for role in ('series', 'renderer', 'wrapper', 'helper'):
        for f in acc[role]:
            check_accessor(prog, check, f, role, summ)
            n += 1
    for f in acc['series']:
        check_window(prog, check, f)
    check.note('accessors: ' + ', '.join('%s=%s' % (r, [f.qualname for f in fs]) for r, fs in sorted(acc.items())))
    check.floor('C16.R1', 5)
    check.floor('C16.R2', 4)
    check.floor('C16.R3', 6)
    # liveness control: the analysis must flag the textbook aliasing accessor
    check.control('alias-escape control fires', _control())


CONTROL_SRC = '''
class Holder(object):
    def Get(self, name):
        val = self.Store[name]
        if self.Flag:
            val.pop(0)
        return val
'''


def _control():
    tree = ast.parse(CONTROL_SRC)
    fn = tree.body[0].body[0]
    g = cfgmod.CFG(fn)
    aa = AliasAnalysis(g, fn)
    esc = any(ALIAS in aa.tags(n.ast.value, n) for n in g.stmt_nodes(lambda n: isinstance(n.ast, ast.Return)))
    mut = False
    for n in g.stmt_nodes():
        for ex in own_exprs(n):
            for kind, recv, _ in mutations_in(ex):
                if ALIAS in aa.tags(recv, n):
                    mut = True
    return esc and mut
