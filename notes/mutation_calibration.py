# Design-round calibration (NOT a check): 30 hand-written single edits applied to /repo + candidate_fixes.diff on scratch copies,
# each run against the unedited test-suite. Result (2026-09-27): 16 survive (m01 m04 m09 m12 m13 m14 m15 m17 m18 m19 m20 m22 m25 m27 m29 m30),
# 12 are killed, 2 hang the suite (m11, m24: the guard also ensures termination). Needs BASE prepared as in DESIGN.md section 7.
import os, shutil, subprocess, sys, tempfile, concurrent.futures as cf
BASE='/tmp/scratch/mut/base'
M=[ # (id, property, file, old, new)
('m01','C01','sfc_models/sector_definitions.py',"                self.AddCashFlow('-DIV', 'PROF', 'Dividends paid', is_income=False)\n                s.AddCashFlow('DIV', self.GetVariableName('PROF'), 'Dividends received', is_income=True)\n                break","                s.AddCashFlow('DIV', self.GetVariableName('PROF'), 'Dividends received', is_income=True)\n                break"),
('m02','C01','sfc_models/external.py',"        self.Parent['FX']._SendMoney(sector, flow_variable_name)\n","        pass\n"),
('m03','C01','sfc_models/sector_definitions.py',"s.GetVariableName('LAG_' + dem_name)),\n                          'Interest received","s.GetVariableName(dem_name)),\n                          'Interest received"),
('m04','C04','sfc_models/sector.py',"            if s.ID == self.ID:\n                continue\n            if self.ShareParent(s):","            if s.ID == self.ID:\n                continue\n            if not s.HasF:\n                continue\n            if self.ShareParent(s):"),
('m05','C04','sfc_models/sector.py',"            term = '-SUP_' + supplier.FullCode\n            residual_equation.AddTerm(term)","            term = '+SUP_' + supplier.FullCode\n            residual_equation.AddTerm(term)"),
('m06','C04','sfc_models/sector.py',"        residual_weight = '1.0'\n","        residual_weight = '1.1'\n"),
('m07','C07','sfc_models/external.py',"        term = '+{0}*{1}'.format(variable_name,\n","        term = '-{0}*{1}'.format(variable_name,\n"),
('m08','C07','sfc_models/external.py',"            self.AddVariable(code, desc,  '{0}/{1}'.format(local, foreign))","            self.AddVariable(code, desc,  '{1}/{0}'.format(local, foreign))"),
('m09','C02','sfc_models/equation_solver.py',"        while not (relative_error <= err_toler):","        while relative_error > err_toler:"),
('m10','C02','sfc_models/equation_solver.py',"        if had_evaluation_errors:\n            Logger('Had evaluation errors')\n            raise ValueError(last_error)\n","        if had_evaluation_errors:\n            Logger('Had evaluation errors')\n"),
('m11','C10','sfc_models/equation_solver.py',"                if (var in time_zero_constants.keys()) or (var in self.Parser.InitialConditions.keys()): # pragma: no cover [no idea how to trigger this easily...]\n                    continue\n","                if False:\n                    continue\n"),
('m12','C10','sfc_models/equation_solver.py',"            if len(val) < self.Parser.MaxTime + 1:","            if len(val) < self.Parser.MaxTime:"),
('m13','C11','sfc_models/equation_solver.py',"            if num_tries > self.MaxIterations:\n                if had_evaluation_errors:","            if num_tries > self.MaxIterations and not had_evaluation_errors:\n                if had_evaluation_errors:"),
('m14','C11','sfc_models/utils.py',"    internal = ['self', 'None', 'k']\n","    internal = ['self', 'None']\n"),
('m15','C13','sfc_models/utils.py',"            if toknum == NAME and tokval in lookup:  # replace NAME tokens\n                result.append((NAME, lookup[tokval]))\n            else:\n                result.append((toknum, tokval))\n        return untokenize(result).decode('utf-8')","            if tokval in lookup:  # replace NAME tokens\n                result.append((NAME, lookup[tokval]))\n            else:\n                result.append((toknum, tokval))\n        return untokenize(result).decode('utf-8')"),
('m16','C15','sfc_models/equation_solver.py',"        return copy.deepcopy(self)","        return copy.copy(self)"),
('m17','C16','sfc_models/models.py',"                val = list(series_holder[series])","                val = series_holder[series]"),
('m18','C17','sfc_models/equation_solver.py',"        self.VariableList = []\n        if self.MaxTime","        if self.MaxTime"),
('m19','C18','sfc_models/sector_definitions.py',"        for s in self.CurrencyZone.GetSectors():\n            if s.ID == self.ID:\n                continue\n            if s.IsTaxable:","        for s in self.GetModel().GetSectors():\n            if s.ID == self.ID:\n                continue\n            if s.IsTaxable:"),
('m20','C18','sfc_models/sector_definitions.py',"'SUP_' + output_name + ' - DEM_' + labour_input_name","'SUP_GOOD - DEM_' + labour_input_name"),
('m21','C19','sfc_models/utils.py',"            for v in varz:\n                row.append(self[v][i], )","            for v in self.keys():\n                row.append(self[v][i], )"),
('m22','C05','sfc_models/models.py',"        self.GlobalVariables = [(self._ReplaceAliasesInString(var, lookup), self._ReplaceAliasesInString(eqn, lookup), desc)\n                                for var, eqn, desc in self.GlobalVariables]\n",""),
('m23','C06','sfc_models/sector.py',"            if rhs == '' or rhs == '0.0':\n                self.SetEquationRightHandSide(term, eqn)","            if True:\n                self.SetEquationRightHandSide(term, eqn)"),
('m24','C03','sfc_models/equation_parser.py',"                self.Endogenous.remove((var, old_eqn))","                pass"),
('m25','C08','sfc_models/sector_definitions.py',"        self.AddVariable('DEM_' + labour_input_name, 'Demand for labour', '')\n        self.AddVariable('PROF'","        self.AddVariable('PROF'"),
('m26','C12','sfc_models/equation.py',"        elif self.Constant == -1:\n            lead = '-'","        elif self.Constant == -1:\n            lead = '+'"),
('m27','C14','sfc_models/equation_parser.py',"            if 'exogenous' in equation.lower() or (len(equation.strip()) == 0 and 'exogenous' in raw_line.lower()):","            if 'exogenous' in raw_line.lower():"),
('m28','C09','sfc_models/sector_definitions.py',"                         'AlphaIncome * AfterTax + AlphaFin * LAG_F')\n        # self.AddVariable('PreTax'","                         'AlphaIncome * AfterTax + AlphaFin * F')\n        # self.AddVariable('PreTax'"),
('m29','C09','sfc_models/sector_definitions.py',"s.GetVariableName('LAG_' + sup_name)),\n                              'Interest paid","s.GetVariableName(sup_name)),\n                              'Interest paid"),
('m30','C01','sfc_models/models.py',"            target_sector.AddCashFlow(term, eqn=None,\n                                      is_income=is_income_dest)","            if is_income_dest:\n                target_sector.AddCashFlow(term, eqn=None,\n                                      is_income=is_income_dest)"),
]
def run(m):
    mid,prop,f,old,new=m
    d=tempfile.mkdtemp(prefix='mut_',dir='/tmp/scratch/mut')
    try:
        shutil.copytree(BASE,d,dirs_exist_ok=True)
        p=os.path.join(d,f); s=open(p).read()
        if s.count(old)<1: return (mid,prop,'ANCHOR-MISSING')
        open(p,'w').write(s.replace(old,new,1))
        r=subprocess.run(['/venv/bin/python','-m','pytest','-q','-x','-p','no:cacheprovider','--timeout=900','--deselect','sfc_models/deprecated/test_iterative_machine_generator.py::TestIterativeMachineGenerator::test_main'],cwd=d,env=dict(os.environ,PYTHONPATH=d),capture_output=True,text=True)
        last=[l for l in r.stdout.strip().split('\n') if l][-1]
        return (mid,prop,'SURVIVES' if r.returncode==0 else 'killed', last[:90])
    finally: shutil.rmtree(d,ignore_errors=True)
with cf.ThreadPoolExecutor(12) as ex:
    for res in ex.map(run,M): print(res)
