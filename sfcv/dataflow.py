"""E6 - local dataflow helpers: linear forms, flow-sensitive may-alias / escape analysis, reaching definitions."""
import ast
from fractions import Fraction

from .loader import unparse, call_name, attr_chain

# ------------------------------------------------------------------------------------------------
# linear forms  a1*x1 + ... + c   over atoms (names, attribute chains, len(...) calls)
# ------------------------------------------------------------------------------------------------


def linform(expr, subst=None, depth=0):
    """expression -> {atom: coef, '': const} or None when not linear.  `subst` maps local names to expressions
    (single-assignment aliases) and is applied transitively (bounded)."""
    subst = subst or {}
    if isinstance(expr, ast.Constant):
        if isinstance(expr.value, bool) or not isinstance(expr.value, (int, float)):
            return None
        return {'': Fraction(expr.value).limit_denominator(10**9)}
    if isinstance(expr, ast.Name):
        if expr.id in subst and depth < 6:
            return linform(subst[expr.id], subst, depth + 1)
        return {expr.id: Fraction(1), '': Fraction(0)}
    if isinstance(expr, ast.Attribute):
        ch = attr_chain(expr)
        if ch is None:
            return None
        return {'.'.join(ch): Fraction(1), '': Fraction(0)}
    if isinstance(expr, ast.Call):
        nm = call_name(expr)
        if nm == 'len' and len(expr.args) == 1:
            return {'len(%s)' % unparse(expr.args[0]): Fraction(1), '': Fraction(0)}
        if nm in ('int', 'float') and len(expr.args) == 1:
            return linform(expr.args[0], subst, depth)
        return None
    if isinstance(expr, ast.UnaryOp) and isinstance(expr.op, (ast.USub, ast.UAdd)):
        f = linform(expr.operand, subst, depth)
        if f is None:
            return None
        s = -1 if isinstance(expr.op, ast.USub) else 1
        return {k: s * v for k, v in f.items()}
    if isinstance(expr, ast.BinOp):
        a = linform(expr.left, subst, depth)
        b = linform(expr.right, subst, depth)
        if a is None or b is None:
            return None
        if isinstance(expr.op, (ast.Add, ast.Sub)):
            s = 1 if isinstance(expr.op, ast.Add) else -1
            out = dict(a)
            for k, v in b.items():
                out[k] = out.get(k, Fraction(0)) + s * v
            return out
        if isinstance(expr.op, ast.Mult):
            ca = _const_only(a)
            cb = _const_only(b)
            if ca is not None:
                return {k: ca * v for k, v in b.items()}
            if cb is not None:
                return {k: cb * v for k, v in a.items()}
            return None
        return None
    return None


def _const_only(f):
    if all(v == 0 for k, v in f.items() if k != ''):
        return f.get('', Fraction(0))
    return None


def lin_norm(f):
    if f is None:
        return None
    out = {k: v for k, v in f.items() if v != 0 or k == ''}
    out.setdefault('', Fraction(0))
    return out


def lin_eq(f, g):
    f, g = lin_norm(f), lin_norm(g)
    return f is not None and g is not None and f == g


def lin_str(f):
    if f is None:
        return '<non-linear>'
    f = lin_norm(f)
    parts = []
    for k in sorted(k for k in f if k):
        c = f[k]
        parts.append(('%s' % k) if c == 1 else ('%s*%s' % (c, k)))
    if f[''] != 0 or not parts:
        parts.append(str(f['']))
    return ' + '.join(parts)


def single_assign_subst(func):
    """names assigned exactly once in the function by a plain `x = expr` (not in a loop target, not augmented)"""
    counts, exprs = {}, {}
    for n in ast.walk(func):
        if isinstance(n, ast.Assign):
            for t in n.targets:
                for nm in _target_names(t):
                    counts[nm] = counts.get(nm, 0) + 1
                if isinstance(t, ast.Name):
                    exprs[t.id] = n.value
        elif isinstance(n, (ast.AugAssign, ast.AnnAssign)):
            for nm in _target_names(n.target):
                counts[nm] = counts.get(nm, 0) + 2
        elif isinstance(n, (ast.For, ast.comprehension)):
            for nm in _target_names(n.target):
                counts[nm] = counts.get(nm, 0) + 2
        elif isinstance(n, ast.With):
            for it in n.items:
                if it.optional_vars is not None:
                    for nm in _target_names(it.optional_vars):
                        counts[nm] = counts.get(nm, 0) + 2
    return {k: v for k, v in exprs.items() if counts.get(k) == 1}


def _target_names(t):
    if isinstance(t, ast.Name):
        return [t.id]
    if isinstance(t, (ast.Tuple, ast.List)):
        out = []
        for e in t.elts:
            out.extend(_target_names(e))
        return out
    if isinstance(t, ast.Starred):
        return _target_names(t.value)
    return []


target_names = _target_names

# ------------------------------------------------------------------------------------------------
# may-alias / escape analysis
# ------------------------------------------------------------------------------------------------
ALIAS, SHALLOW, FRESH = 'alias', 'shallow', 'fresh'

COPY_CALLS = {'list', 'sorted', 'tuple', 'dict', 'set', 'frozenset', 'reversed'}
SCALAR_CALLS = {'str', 'repr', 'len', 'int', 'float', 'abs', 'min', 'max', 'sum', 'round', 'bool', 'range',
                'format', 'type', 'isinstance', 'enumerate', 'zip', 'any', 'all'}
COPY_METHODS = {'copy', 'deepcopy'}
STR_METHODS = {'join', 'format', 'strip', 'lstrip', 'rstrip', 'lower', 'upper', 'replace', 'split', 'decode',
               'encode', 'startswith', 'endswith', 'find', 'keys', 'items', 'values'}
MUTATORS = {'pop', 'append', 'remove', 'sort', 'reverse', 'extend', 'insert', 'clear', 'update', 'setdefault',
            'popitem'}


class AliasAnalysis(object):
    """Flow-sensitive may-alias of local names with stored state.

    roots: `self` (and, when params_are_state, every parameter) denote stored state; attribute / index chains from
    a root are ALIAS; copy operations give SHALLOW (new container, elements possibly stored objects) or FRESH."""

    def __init__(self, cfg, func, prog=None, cls=None, state_params=('self',), returns_fresh=None):
        self.cfg = cfg
        self.func = func
        self.prog = prog
        self.cls = cls
        self.state_params = set(state_params)
        self.returns_fresh = returns_fresh or (lambda call: None)
        self.in_state = {}
        self._run()

    def classify(self, e, env):
        if e is None or isinstance(e, (ast.Constant, ast.JoinedStr, ast.Compare, ast.BoolOp)):
            return {FRESH}
        if isinstance(e, ast.Name):
            if e.id in self.state_params:
                return {ALIAS}
            return set(env.get(e.id, {FRESH}))
        if isinstance(e, ast.Attribute):
            base = self.classify(e.value, env)
            return {ALIAS} if (ALIAS in base or SHALLOW in base) else {FRESH}
        if isinstance(e, ast.Subscript):
            base = self.classify(e.value, env)
            if isinstance(e.slice, ast.Slice):
                return {SHALLOW} if (ALIAS in base or SHALLOW in base) else {FRESH}
            return {ALIAS} if (ALIAS in base or SHALLOW in base) else {FRESH}
        if isinstance(e, ast.IfExp):
            return self.classify(e.body, env) | self.classify(e.orelse, env)
        if isinstance(e, (ast.BinOp,)):
            l, r = self.classify(e.left, env), self.classify(e.right, env)
            if isinstance(e.op, (ast.Add, ast.Mult)) and (ALIAS in l | r or SHALLOW in l | r):
                return {SHALLOW}
            return {FRESH}
        if isinstance(e, ast.UnaryOp):
            return {FRESH}
        if isinstance(e, (ast.ListComp, ast.SetComp, ast.DictComp, ast.GeneratorExp)):
            return {SHALLOW}
        if isinstance(e, (ast.List, ast.Tuple, ast.Set)):
            tags = set()
            for x in e.elts:
                tags |= self.classify(x, env)
            return {SHALLOW} if (ALIAS in tags or SHALLOW in tags) else {FRESH}
        if isinstance(e, ast.Dict):
            return {SHALLOW}
        if isinstance(e, ast.Call):
            nm = call_name(e)
            if isinstance(e.func, ast.Name):
                if nm in COPY_CALLS:
                    inner = set()
                    for a in e.args:
                        inner |= self.classify(a, env)
                    return {SHALLOW} if (ALIAS in inner or SHALLOW in inner) else {FRESH}
                if nm in SCALAR_CALLS:
                    return {FRESH}
                if nm == 'getattr':
                    base = self.classify(e.args[0], env) if e.args else {FRESH}
                    return {ALIAS} if (ALIAS in base or SHALLOW in base) else {FRESH}
            if isinstance(e.func, ast.Attribute):
                if nm == 'deepcopy':
                    return {FRESH}
                if nm == 'copy':
                    return {SHALLOW}
                if nm in STR_METHODS:
                    return {FRESH} if nm not in ('values', 'items') else {SHALLOW}
                if nm in ('get', 'pop', 'setdefault', '__getitem__'):
                    base = self.classify(e.func.value, env)
                    return {ALIAS} if (ALIAS in base or SHALLOW in base) else {FRESH}
            r = self.returns_fresh(e)
            if r is True:
                return {FRESH}
            if r is False:
                return {ALIAS}
            return {FRESH}
        if isinstance(e, ast.Starred):
            return self.classify(e.value, env)
        return {FRESH}

    def _transfer(self, node, env):
        env = {k: set(v) for k, v in env.items()}
        s = node.ast
        if node.kind == 'for':
            tags = self.classify(s.iter, env)
            elt = {ALIAS} if (ALIAS in tags or SHALLOW in tags) else {FRESH}
            for nm in _target_names(s.target):
                env[nm] = set(elt)
            return env
        if node.kind == 'with':
            for it in s.items:
                if it.optional_vars is not None:
                    for nm in _target_names(it.optional_vars):
                        env[nm] = {FRESH}
            return env
        if node.kind != 'stmt':
            return env
        if isinstance(s, ast.Assign):
            tags = self.classify(s.value, env)
            for t in s.targets:
                if isinstance(t, ast.Name):
                    env[t.id] = set(tags)
                elif isinstance(t, (ast.Tuple, ast.List)):
                    elt = {ALIAS} if (ALIAS in tags or SHALLOW in tags) else {FRESH}
                    for nm in _target_names(t):
                        env[nm] = set(elt)
        elif isinstance(s, ast.AugAssign):
            if isinstance(s.target, ast.Name):
                pass  # in-place on the same object: tags unchanged
        elif isinstance(s, ast.AnnAssign) and s.value is not None and isinstance(s.target, ast.Name):
            env[s.target.id] = self.classify(s.value, env)
        return env

    def _run(self):
        cfg = self.cfg
        self.in_state = {n.id: None for n in cfg.nodes}
        self.in_state[cfg.entry.id] = {}
        work = [cfg.entry.id]
        while work:
            a = work.pop()
            env = self.in_state[a]
            out = self._transfer(cfg.nodes[a], env)
            for b, _ in cfg.succ[a]:
                cur = self.in_state[b]
                if cur is None:
                    self.in_state[b] = {k: set(v) for k, v in out.items()}
                    work.append(b)
                else:
                    changed = False
                    for k, v in out.items():
                        if k not in cur:
                            cur[k] = set(v)
                            changed = True
                        elif not v <= cur[k]:
                            cur[k] |= v
                            changed = True
                    if changed:
                        work.append(b)

    def env_at(self, node):
        return self.in_state.get(node.id) or {}

    def tags(self, expr, node):
        return self.classify(expr, self.env_at(node))


def mutations_in(stmt_or_expr):
    """(kind, receiver expression, node) for every syntactic mutation inside the given AST"""
    out = []
    for n in ast.walk(stmt_or_expr):
        if isinstance(n, ast.Call) and isinstance(n.func, ast.Attribute) and n.func.attr in MUTATORS:
            out.append((n.func.attr, n.func.value, n))
        elif isinstance(n, ast.Delete):
            for t in n.targets:
                if isinstance(t, ast.Subscript):
                    out.append(('del[]', t.value, n))
                elif isinstance(t, ast.Attribute):
                    out.append(('delattr', t.value, n))
        elif isinstance(n, ast.Assign):
            for t in n.targets:
                for tt in ([t] if not isinstance(t, (ast.Tuple, ast.List)) else t.elts):
                    if isinstance(tt, ast.Subscript):
                        out.append(('[]=', tt.value, n))
                    elif isinstance(tt, ast.Attribute):
                        out.append(('attr=', tt.value, n))
        elif isinstance(n, ast.AugAssign):
            if isinstance(n.target, ast.Subscript):
                out.append(('[]+=', n.target.value, n))
            elif isinstance(n.target, ast.Attribute):
                out.append(('attr+=', n.target.value, n))
            elif isinstance(n.target, ast.Name):
                out.append(('+=', n.target, n))
    return out


def own_exprs(node):
    """the expressions evaluated *at* a CFG node (not those of nested statements)"""
    s = node.ast
    if node.kind == 'test':
        return [s]
    if node.kind == 'for':
        return [s.iter]
    if node.kind == 'with':
        return [it.context_expr for it in s.items]
    if node.kind == 'except':
        return []
    return [s] if s is not None else []


# ------------------------------------------------------------------------------------------------
# generic forward dataflow over a CFG (may-analysis: states are dict var -> set of tags, joined by union)
# ------------------------------------------------------------------------------------------------
def forward(cfg, init, transfer, refine=None, start=None):
    """returns in-state per node id.  transfer(node, state) -> state after the node;
    refine(node, label, state) -> state along the edge with that label (or None to kill the edge)."""
    start = start if start is not None else cfg.entry.id
    ins = {start: {k: set(v) for k, v in init.items()}}
    work = [start]
    while work:
        a = work.pop()
        st = ins[a]
        out = transfer(cfg.nodes[a], {k: set(v) for k, v in st.items()})
        for b, lab in cfg.succ[a]:
            o = out
            if refine is not None:
                o = refine(cfg.nodes[a], lab, {k: set(v) for k, v in out.items()})
                if o is None:
                    continue
            cur = ins.get(b)
            if cur is None:
                ins[b] = {k: set(v) for k, v in o.items()}
                work.append(b)
            else:
                changed = False
                for k, v in o.items():
                    if k not in cur:
                        cur[k] = set(v)
                        changed = True
                    elif not v <= cur[k]:
                        cur[k] |= v
                        changed = True
                if changed:
                    work.append(b)
    return ins
