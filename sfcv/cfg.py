"""E2 - statement-level control-flow graph with dominators and path queries (stdlib only).

Nodes are simple statements, branch tests (`if` / `while`), loop headers (`for`) and handler entries.
Exceptional edges are added only from statements inside a `try` body to the handlers that `try` names;
an explicit `raise` goes to the first enclosing handler whose type matches (small class table below) or to
the function's raise-exit.  `finally` bodies are linked on the normal path only (the repo's finally blocks
only log / publish diagnostics; no rule depends on the abrupt path through them)."""
import ast

from .loader import AnalysisError, unparse

# exception classes the repository defines / uses, child -> parent
EXC_PARENT = {
    'LogicError': 'ValueError', 'ConvergenceError': 'ValueError', 'NoEquilibriumError': 'ValueError',
    'ValueError': 'Exception', 'KeyError': 'LookupError', 'IndexError': 'LookupError', 'LookupError': 'Exception',
    'NameError': 'Exception', 'ZeroDivisionError': 'ArithmeticError', 'OverflowError': 'ArithmeticError',
    'FloatingPointError': 'ArithmeticError', 'ArithmeticError': 'Exception', 'TypeError': 'Exception',
    'NotImplementedError': 'RuntimeError', 'RuntimeError': 'Exception', 'SyntaxError': 'Exception',
    'Warning': 'Exception', 'AssertionError': 'Exception', 'AttributeError': 'Exception',
    'Exception': 'BaseException',
}


def exc_is_a(name, ancestor):
    seen = set()
    while name is not None and name not in seen:
        if name == ancestor:
            return True
        seen.add(name)
        name = EXC_PARENT.get(name)
    return False


def handler_types(h):
    """names a handler catches; ['*'] for a bare except"""
    if h.type is None:
        return ['*']
    t = h.type
    elts = t.elts if isinstance(t, ast.Tuple) else [t]
    out = []
    for e in elts:
        if isinstance(e, ast.Name):
            out.append(e.id)
        elif isinstance(e, ast.Attribute):
            out.append(e.attr)
        else:
            out.append('?')
    return out


def raised_name(stmt):
    e = stmt.exc
    if e is None:
        return None
    if isinstance(e, ast.Call):
        e = e.func
    if isinstance(e, ast.Name):
        return e.id
    if isinstance(e, ast.Attribute):
        return e.attr
    return None


class Node(object):
    __slots__ = ('id', 'kind', 'ast', 'stmt', 'loops', 'tries')

    def __init__(self, nid, kind, node, stmt, loops, tries):
        self.id = nid
        self.kind = kind      # entry, exit, raise_exit, stmt, test, for, except, with
        self.ast = node       # expression for test nodes, statement otherwise
        self.stmt = stmt      # the owning statement
        self.loops = loops    # tuple of enclosing loop statements (outermost first)
        self.tries = tries    # tuple of enclosing try statements whose *body* contains the node

    @property
    def line(self):
        return getattr(self.ast, 'lineno', 0)

    def __repr__(self):
        return '<%d %s L%s %s>' % (self.id, self.kind, self.line,
                                   unparse(self.ast)[:50].replace('\n', ' ') if self.ast is not None else '')


class CFG(object):
    def __init__(self, func):
        self.func = func
        self.nodes = []
        self.succ = {}
        self.pred = {}
        self._loops = []
        self._tries = []      # stack of (try stmt, [handler nodes], in_body flag)
        self.entry = self._new('entry', None, None)
        self.exit = self._new('exit', None, None)
        self.raise_exit = self._new('raise_exit', None, None)
        ends = self._seq(func.body, [(self.entry.id, None)])
        for n, lab in ends:
            self._edge(n, self.exit.id, lab)
        self._dom = None
        self._pdom = None

    # ---- construction ------------------------------------------------------------------------
    def _new(self, kind, node, stmt):
        n = Node(len(self.nodes), kind, node, stmt, tuple(l[0] for l in self._loops),
                 tuple(t[0] for t in self._tries if t[2]))
        self.nodes.append(n)
        self.succ[n.id] = []
        self.pred[n.id] = []
        # implicit exceptional edges to the handlers of every enclosing try body
        if kind in ('stmt', 'test', 'for', 'with'):
            for t in reversed(self._tries):
                if t[2]:
                    for h in t[1]:
                        self._edge(n.id, h.id, 'exc')
                    break
        return n

    def _edge(self, a, b, label=None):
        if (b, label) not in self.succ[a]:
            self.succ[a].append((b, label))
            self.pred[b].append((a, label))

    def _connect(self, frontier, n):
        for a, lab in frontier:
            self._edge(a, n.id, lab)

    def _seq(self, stmts, frontier):
        for s in stmts:
            frontier = self._stmt(s, frontier)
        return frontier

    def _stmt(self, s, frontier):
        if isinstance(s, ast.If):
            t = self._new('test', s.test, s)
            self._connect(frontier, t)
            a = self._seq(s.body, [(t.id, True)])
            b = self._seq(s.orelse, [(t.id, False)])
            return a + b
        if isinstance(s, ast.While):
            t = self._new('test', s.test, s)
            self._connect(frontier, t)
            self._loops.append((s, t, []))
            body_end = self._seq(s.body, [(t.id, True)])
            for a, lab in body_end:
                self._edge(a, t.id, lab)
            _, _, breaks = self._loops.pop()
            const_true = isinstance(s.test, ast.Constant) and bool(s.test.value)
            out = [] if const_true else self._seq(s.orelse, [(t.id, False)])
            return out + breaks
        if isinstance(s, (ast.For, ast.AsyncFor)):
            h = self._new('for', s, s)
            self._connect(frontier, h)
            self._loops.append((s, h, []))
            body_end = self._seq(s.body, [(h.id, True)])
            for a, lab in body_end:
                self._edge(a, h.id, lab)
            _, _, breaks = self._loops.pop()
            out = self._seq(s.orelse, [(h.id, False)])
            return out + breaks
        if isinstance(s, ast.Break):
            n = self._new('stmt', s, s)
            self._connect(frontier, n)
            if not self._loops:
                raise AnalysisError('break outside loop')
            self._loops[-1][2].append((n.id, None))
            return []
        if isinstance(s, ast.Continue):
            n = self._new('stmt', s, s)
            self._connect(frontier, n)
            self._edge(n.id, self._loops[-1][1].id, None)
            return []
        if isinstance(s, ast.Return):
            n = self._new('stmt', s, s)
            self._connect(frontier, n)
            self._edge(n.id, self.exit.id, None)
            return []
        if isinstance(s, ast.Raise):
            n = self._new('stmt', s, s)
            self._connect(frontier, n)
            self._route_raise(n, raised_name(s))
            return []
        if isinstance(s, ast.Try):
            hnodes = []
            for h in s.handlers:
                hn = Node(len(self.nodes), 'except', h, s, tuple(l[0] for l in self._loops),
                          tuple(t[0] for t in self._tries if t[2]))
                self.nodes.append(hn)
                self.succ[hn.id] = []
                self.pred[hn.id] = []
                hnodes.append(hn)
            self._tries.append([s, hnodes, True])
            body_end = self._seq(s.body, frontier)
            self._tries[-1][2] = False
            else_end = self._seq(s.orelse, body_end)
            ends = list(else_end)
            for h, hn in zip(s.handlers, hnodes):
                ends += self._seq(h.body, [(hn.id, None)])
            self._tries.pop()
            if s.finalbody:
                ends = self._seq(s.finalbody, ends)
            return ends
        if isinstance(s, (ast.With, ast.AsyncWith)):
            n = self._new('with', s, s)
            self._connect(frontier, n)
            return self._seq(s.body, [(n.id, None)])
        n = self._new('stmt', s, s)
        self._connect(frontier, n)
        return [(n.id, None)]

    def _route_raise(self, n, name):
        """explicit raise: first enclosing try (whose body we are in) with a matching handler, else raise-exit.
        A bare `raise` (re-raise inside a handler) propagates outward."""
        for t in reversed(self._tries):
            if not t[2]:
                continue
            for h in t[1]:
                for ty in handler_types(h.ast):
                    if ty == '*' or (name is not None and exc_is_a(name, ty)) or \
                            (name is None and ty in ('Exception', 'BaseException')):
                        self._edge(n.id, h.id, 'raise')
                        return
        self._edge(n.id, self.raise_exit.id, 'raise')

    # ---- queries -----------------------------------------------------------------------------
    def where(self, pred):
        return [n for n in self.nodes if pred(n)]

    def stmt_nodes(self, pred=None):
        return [n for n in self.nodes if n.kind in ('stmt', 'test', 'for', 'with', 'except')
                and (pred is None or pred(n))]

    def reach(self, srcs, avoid=(), edge_ok=None, include_src=False):
        """nodes reachable from srcs (after at least one edge unless include_src) without entering `avoid`"""
        avoid = set(avoid)
        seen = set()
        work = []
        for s in srcs:
            sid = s.id if isinstance(s, Node) else s
            if include_src:
                if sid in avoid:
                    continue      # a source that is itself a cut node starts nothing
                seen.add(sid)
            work.append(sid)
        started = set()
        while work:
            a = work.pop()
            if a in started:
                continue
            started.add(a)
            for b, lab in self.succ[a]:
                if b in avoid:
                    continue
                if edge_ok is not None and not edge_ok(a, b, lab):
                    continue
                if b not in seen:
                    seen.add(b)
                work.append(b)
        return seen

    def can_reach(self, a, b, avoid=(), edge_ok=None):
        bid = b.id if isinstance(b, Node) else b
        return bid in self.reach([a], avoid, edge_ok)

    def must_pass(self, src, dst, via):
        """every path src -> dst goes through a node of `via` (vacuously true when dst is unreachable)"""
        via = {v.id if isinstance(v, Node) else v for v in via}
        dst = dst.id if isinstance(dst, Node) else dst
        if dst in via:
            return True
        return dst not in self.reach([src], avoid=via)

    def conditions_at(self, n):
        """[(test ast, outcome)]: branch outcomes that hold whenever `n` is reached - every path entry -> n leaves the
        test through an edge with that outcome (for a test inside a loop: on its last evaluation before n only when
        the other outcome cannot reach n at all)."""
        nid = n.id if isinstance(n, Node) else n
        out = []
        for t in self.nodes:
            if t.kind != 'test' or t.id == nid:
                continue
            for lab in (True, False):
                other = [b for b, l in self.succ[t.id] if l is (not lab)]
                if not other:
                    continue
                # n unreachable when the `lab` edges of t are removed  ==> every path to n takes t's `lab` outcome;
                # additionally the other outcome must not lead to n without re-testing
                r = self.reach([self.entry], edge_ok=lambda a, b, l, _t=t.id, _lab=lab: not (a == _t and l is _lab),
                               include_src=True)
                if nid in r:
                    continue
                if nid in self.reach(other, avoid={t.id}, include_src=True):
                    continue
                out.append((t.ast, lab))
        return out

    def dominators(self):
        if self._dom is None:
            self._dom = self._domtree(self.entry.id, self.succ, self.pred)
        return self._dom

    def _domtree(self, root, succ, pred):
        reach = set()
        work = [root]
        while work:
            a = work.pop()
            if a in reach:
                continue
            reach.add(a)
            work.extend(b for b, _ in succ[a])
        dom = {n: set(reach) for n in reach}
        dom[root] = {root}
        changed = True
        order = sorted(reach)
        while changed:
            changed = False
            for n in order:
                if n == root:
                    continue
                ps = [p for p, _ in pred[n] if p in reach]
                new = set(reach)
                for p in ps:
                    new &= dom[p]
                new |= {n}
                if new != dom[n]:
                    dom[n] = new
                    changed = True
        return dom

    def dominates(self, a, b):
        a = a.id if isinstance(a, Node) else a
        b = b.id if isinstance(b, Node) else b
        d = self.dominators()
        return b in d and a in d[b]

    def paths(self, src, dst, cap=10000, avoid=()):
        """bounded enumeration of acyclic paths src -> dst (lists of node ids)"""
        src = src.id if isinstance(src, Node) else src
        dst = dst.id if isinstance(dst, Node) else dst
        avoid = set(avoid)
        out = []
        stack = [(src, [src])]
        while stack:
            n, path = stack.pop()
            if n == dst and len(path) > 1:
                out.append(path)
                if len(out) >= cap:
                    raise AnalysisError('path cap reached in ' + self.func.name)
                continue
            for b, _ in self.succ[n]:
                if b in avoid or (b in path and b != dst):
                    continue
                stack.append((b, path + [b]))
        return out

    def node_of(self, stmt):
        for n in self.nodes:
            if n.stmt is stmt and n.kind in ('stmt', 'test', 'for', 'with'):
                return n
        raise AnalysisError('statement has no CFG node: ' + unparse(stmt)[:60])

    def nodes_in(self, stmt):
        """all nodes whose statement lies inside compound statement `stmt` (inclusive)"""
        inside = set(id(x) for x in ast.walk(stmt))
        return [n for n in self.nodes if n.ast is not None and id(n.ast) in inside or
                (n.stmt is not None and id(n.stmt) in inside)]


def build(funcinfo_or_node):
    node = getattr(funcinfo_or_node, 'node', funcinfo_or_node)
    return CFG(node)


def atomic_facts(test, outcome):
    """decompose a branch outcome into atomic (expression text, truth) facts:
    not e / a and b (true) / a or b (false) / `not in`, `is not`, `!=` are normalised to their positive form"""
    out = []

    def go(e, val):
        if isinstance(e, ast.UnaryOp) and isinstance(e.op, ast.Not):
            go(e.operand, not val)
        elif isinstance(e, ast.BoolOp) and isinstance(e.op, ast.And) and val:
            for v in e.values:
                go(v, True)
        elif isinstance(e, ast.BoolOp) and isinstance(e.op, ast.Or) and not val:
            for v in e.values:
                go(v, False)
        elif isinstance(e, ast.Compare) and len(e.ops) == 1 and isinstance(e.ops[0], (ast.NotIn, ast.IsNot, ast.NotEq)):
            pos = {ast.NotIn: ast.In, ast.IsNot: ast.Is, ast.NotEq: ast.Eq}[type(e.ops[0])]()
            pe = ast.Compare(left=e.left, ops=[pos], comparators=e.comparators)
            out.append((ast.unparse(pe), not val, pe))
        else:
            out.append((ast.unparse(e), val, e))
    go(test, outcome)
    return out
