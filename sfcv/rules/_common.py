"""Rule fragments shared by several properties."""
import ast

from .. import cfg as cfgmod
from ..inline import flatten
from ..loader import AnalysisError, call_name, unparse
from ..dataflow import single_assign_subst, resolve_expr

REPLACERS = ('replace_token_from_lookup', 'replace_token')


def term_rename(prog):
    """Term.ReplaceTokensFromLookup: every store to the term text is the token-level replacer applied to the current
    text with the caller's lookup, and every normal return has passed such a store (so opaque and simple terms alike
    are renamed).  -> (funcinfo, [(store node, ok, text)], all_paths_ok)"""
    T = prog.classes.get('Term')
    rt = T.methods.get('ReplaceTokensFromLookup') if T else None
    if rt is None:
        raise AnalysisError('Term.ReplaceTokensFromLookup not found')
    fl = flatten(prog, rt)
    g = cfgmod.build(fl)
    sub = single_assign_subst(fl.node)
    params = fl.params()
    lk = params[1] if len(params) > 1 else None
    stores = []
    for n in g.stmt_nodes():
        if n.kind == 'stmt' and isinstance(n.ast, ast.Assign) and any(
                isinstance(t, ast.Attribute) and t.attr == 'Term' for t in n.ast.targets):
            v = resolve_expr(n.ast.value, sub)
            while isinstance(v, ast.Call) and isinstance(v.func, ast.Attribute) and v.func.attr == 'strip' and not v.args:
                v = v.func.value
            ok = isinstance(v, ast.Call) and call_name(v) in REPLACERS and len(v.args) >= 2 and \
                isinstance(v.args[0], ast.Attribute) and v.args[0].attr == 'Term' and unparse(v.args[1]) == lk
            stores.append((n, ok, unparse(n.ast.value)))
    good = [n for n, ok, _ in stores if ok]
    all_paths = bool(good) and g.must_pass(g.entry, g.exit, good)
    return rt, stores, all_paths
