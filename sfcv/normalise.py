"""Source normal form applied when a module is loaded (before any analysis sees it).

One rewriting, exact for every execution:

    if c:                          def f__1(a): B1
        def f(a): B1               def f__2(a): B2
    else:              ==>         if c: f = f__1
        def f(a): B2               else: f = f__2
    ...                            ...
    f(x)                           (f__1 if <c> else f__2 selected where f is called as a statement:)
                                   if c: f__1(x)
                                   else: f__2(x)

The call sites are rewritten only when `c` reads nothing but parameters / names that the function never re-binds (so `c`
has the same value at the call as at the definition) and `f` is used in no other way than being called as a statement.
Defining a function has no effect besides the binding, and the closures resolve their free names at call time in both forms."""
import ast


def _names_stored(fn):
    out = {}
    for n in ast.walk(fn):
        if isinstance(n, ast.Name) and isinstance(n.ctx, (ast.Store, ast.Del)):
            out[n.id] = out.get(n.id, 0) + 1
        elif isinstance(n, (ast.FunctionDef, ast.ClassDef)) and n is not fn:
            out[n.name] = out.get(n.name, 0) + 1
    return out


def _clone(n):
    return ast.parse(ast.unparse(n)).body[0] if isinstance(n, ast.stmt) else ast.parse(ast.unparse(n), mode='eval').body


def _conditional_defs(fn):
    changed = False
    for i, st in enumerate(list(fn.body)):
        if not (isinstance(st, ast.If) and st.orelse):
            continue
        a = [x for x in st.body if isinstance(x, ast.FunctionDef)]
        b = [x for x in st.orelse if isinstance(x, ast.FunctionDef)]
        if len(a) != 1 or len(b) != 1 or a[0].name != b[0].name or a[0].decorator_list or b[0].decorator_list:
            continue
        if any(not isinstance(x, (ast.FunctionDef, ast.Pass)) and not (isinstance(x, ast.Expr) and isinstance(x.value, ast.Constant))
               for x in list(st.body) + list(st.orelse)):
            continue
        name = a[0].name
        stored = _names_stored(fn)
        if stored.get(name, 0) != 2:
            continue
        params = {p.arg for p in fn.args.posonlyargs + fn.args.args + fn.args.kwonlyargs}
        cond_names = {n.id for n in ast.walk(st.test) if isinstance(n, ast.Name)}
        cond_attrs = {n.attr for n in ast.walk(st.test) if isinstance(n, ast.Attribute)}
        cond_calls = [n for n in ast.walk(st.test) if isinstance(n, ast.Call)]
        if any(isinstance(n, ast.Subscript) for n in ast.walk(st.test)):
            continue
        if any(not (isinstance(c.func, ast.Name) and c.func.id == 'len') for c in cond_calls):
            continue
        if any(stored.get(nm, 0) > 0 for nm in cond_names if nm not in ('True', 'False', 'None', 'len')) or \
                not cond_names <= params | {'True', 'False', 'None', 'len'}:
            continue
        if cond_attrs or cond_calls:
            # the condition reads object state: nothing after the definitions may change it - no call other than to the
            # closure itself, no store to an attribute the condition reads
            later = fn.body[i + 1:]
            calls_after = [c for s_ in later for c in ast.walk(s_) if isinstance(c, ast.Call)]
            if any(not (isinstance(c.func, ast.Name) and c.func.id == name) for c in calls_after):
                continue
            if any(isinstance(n, ast.Attribute) and n.attr in cond_attrs and isinstance(n.ctx, (ast.Store, ast.Del)) for s_ in later for n in ast.walk(s_)):
                continue
        # every use of the name is a call statement `name(...)` after the if
        uses = [n for n in ast.walk(fn) if isinstance(n, ast.Name) and n.id == name]
        call_stmts = []
        ok = True

        def scan(block, after):
            nonlocal ok
            for j, s in enumerate(block):
                if isinstance(s, (ast.Expr, ast.Assign)) and isinstance(s.value, ast.Call) and isinstance(s.value.func, ast.Name) and \
                        s.value.func.id == name and not (isinstance(s, ast.Assign) and any(
                            isinstance(n, ast.Name) and n.id == name for t_ in s.targets for n in ast.walk(t_))):
                    call_stmts.append((block, j, s))
                    if any(isinstance(n, ast.Name) and n.id == name for a_ in list(s.value.args) + [k.value for k in s.value.keywords] for n in ast.walk(a_)):
                        ok = False
                    continue
                for f_ in ('body', 'orelse', 'finalbody'):
                    blk = getattr(s, f_, None)
                    if isinstance(blk, list) and blk and isinstance(blk[0], ast.stmt) and not isinstance(s, (ast.FunctionDef, ast.ClassDef)):
                        scan(blk, after)
                if isinstance(s, ast.Try):
                    for h in s.handlers:
                        scan(h.body, after)
        scan(fn.body[i + 1:], True)
        if not ok or len(uses) != len(call_stmts):
            continue
        n1, n2 = name + '__when', name + '__otherwise'
        if n1 in stored or n2 in stored:
            continue
        a[0].name, b[0].name = n1, n2
        for block, j, s in call_stmts:
            k1 = ast.Call(func=ast.Name(id=n1, ctx=ast.Load()), args=s.value.args, keywords=s.value.keywords)
            k2 = ast.Call(func=ast.Name(id=n2, ctx=ast.Load()), args=[_clone(x) for x in s.value.args],
                          keywords=[ast.keyword(arg=k.arg, value=_clone(k.value)) for k in s.value.keywords])
            if isinstance(s, ast.Assign):
                c1 = ast.Assign(targets=s.targets, value=k1)
                c2 = ast.Assign(targets=[_clone(t_) for t_ in s.targets], value=k2)
                for t_ in c2.targets:
                    for n_ in ast.walk(t_):
                        if hasattr(n_, 'ctx') and isinstance(n_, (ast.Name, ast.Attribute, ast.Subscript, ast.Tuple, ast.List)):
                            pass
            else:
                c1, c2 = ast.Expr(value=k1), ast.Expr(value=k2)
            new = ast.If(test=_clone(st.test), body=[c1], orelse=[c2])
            ast.copy_location(new, s)
            ast.copy_location(c1, s)
            ast.copy_location(c2, s)
            ast.fix_missing_locations(new)
            idx = next(k for k, x in enumerate(block) if x is s)
            block[idx] = new
        pos = next(k for k, x in enumerate(fn.body) if x is st)
        fn.body[pos:pos + 1] = [a[0], b[0]]
        changed = True
    return changed


def normalise(tree):
    """in place; returns the number of functions rewritten"""
    n = 0
    for fn in [x for x in ast.walk(tree) if isinstance(x, ast.FunctionDef)]:
        try:
            if _conditional_defs(fn):
                n += 1
        except Exception:
            pass
    return n


# =====================================================================================================================
# Modern-syntax normal form.  Every rewriting below is exact (same values, same exceptions, same order of evaluation):
#
#   annotations          def f(a: int = 0) -> str      ==>  def f(a=0)               (annotations are never read in the package)
#   annotated assignment x: T = e  ==>  x = e ;   a bare `x: T` in a function or plain class body  ==>  pass
#                        (bodies of @dataclass / NamedTuple / TypedDict classes are left alone: there the annotation IS the field)
#   f-string             f'a{x!r:>{w}}b'  ==>  'a{!r:>{}}b'.format(x, w)          (both call format(value, spec) left to right)
#   walrus               if (m := e) is not None: B  ==>  m = e; if m is not None: B   when `m := e` is the first thing the
#                        test evaluates;  `if A and (m := e) ...: B` without else  ==>  if A: m = e; if m ...: B ;
#                        while TEST-with-walrus (no else)  ==>  while True: m = e; if not TEST': break; BODY ;
#                        the same hoisting for plain assignment / expression / return statements
#   match                literal, dotted-value, or-of-those and wildcard patterns (guards allowed), a final bare capture:
#                        match s: case 'a': A   case 'b' | 'c' if g: B   case _: C
#                        ==>  if s == 'a': A  elif s in ('b', 'c') and g: B  else: C      (`s` evaluated once: a temporary unless it
#                        is a plain name / attribute chain).  None / True / False patterns compare with `is`, as `match` does.
# =====================================================================================================================
_RECORD_BASES = {'NamedTuple', 'TypedDict'}


def _is_record_class(cls):
    for d in cls.decorator_list:
        t = d.func if isinstance(d, ast.Call) else d
        nm = t.attr if isinstance(t, ast.Attribute) else getattr(t, 'id', '')
        if nm == 'dataclass':
            return True
    for b in cls.bases:
        nm = b.attr if isinstance(b, ast.Attribute) else getattr(b, 'id', '')
        if nm in _RECORD_BASES:
            return True
    return False


def _loc(new, old):
    ast.copy_location(new, old)
    ast.fix_missing_locations(new)
    return new


class _Modern(ast.NodeTransformer):
    def __init__(self):
        self.count = 0
        self.tmp = 0

    # ---- annotations -------------------------------------------------------------------------------------------
    def _strip(self, node):
        a = node.args
        for p in a.posonlyargs + a.args + a.kwonlyargs + [x for x in (a.vararg, a.kwarg) if x is not None]:
            if p.annotation is not None:
                p.annotation = None
                self.count += 1
        if node.returns is not None:
            node.returns = None
            self.count += 1

    def visit_FunctionDef(self, node):
        self._strip(node)
        self.generic_visit(node)
        node.body = self._block(node.body)
        return node

    visit_AsyncFunctionDef = visit_FunctionDef

    def visit_ClassDef(self, node):
        if _is_record_class(node):
            return node
        self.generic_visit(node)
        return node

    def visit_AnnAssign(self, node):
        self.generic_visit(node)
        self.count += 1
        if node.value is None:
            return _loc(ast.Pass(), node)
        return _loc(ast.Assign(targets=[node.target], value=node.value), node)

    # ---- f-strings ---------------------------------------------------------------------------------------------
    def visit_JoinedStr(self, node):
        def inner(js):
            # the expressions inside the fields are rewritten; a format specification (itself a JoinedStr node) is kept for `spec`
            for v in js.values:
                if isinstance(v, ast.FormattedValue):
                    v.value = self.visit(v.value)
                    if isinstance(v.format_spec, ast.JoinedStr):
                        inner(v.format_spec)
        inner(node)
        args = []

        def field(v):
            args.append(v.value)
            s = '{'
            if v.conversion not in (-1, None):
                s += '!' + chr(v.conversion)
            if v.format_spec is not None:
                s += ':' + spec(v.format_spec)
            return s + '}'

        def spec(js):
            out = ''
            for v in (js.values if isinstance(js, ast.JoinedStr) else [js]):
                if isinstance(v, ast.Constant):
                    out += str(v.value)
                elif isinstance(v, ast.FormattedValue):
                    out += field(v)
                else:
                    raise ValueError('format spec')
            return out

        text = ''
        try:
            for v in node.values:
                if isinstance(v, ast.Constant):
                    text += str(v.value).replace('{', '{{').replace('}', '}}')
                elif isinstance(v, ast.FormattedValue):
                    text += field(v)
                else:
                    return node
        except ValueError:
            return node
        self.count += 1
        if not args:
            return _loc(ast.Constant(value=''.join(str(v.value) for v in node.values)), node)
        return _loc(ast.Call(func=ast.Attribute(value=ast.Constant(value=text), attr='format', ctx=ast.Load()), args=args, keywords=[]), node)

    # ---- str.removeprefix / removesuffix with a literal, on a receiver that is cheap and pure to evaluate again --------------
    #      x.removeprefix('+')  ==>  (x[1:] if x.startswith('+') else x)        x.removesuffix('(0)')  ==>  (x[:-3] if x.endswith('(0)') else x)
    @staticmethod
    def _pure_receiver(e):
        if isinstance(e, ast.Name):
            return True
        if isinstance(e, ast.Attribute):
            return _Modern._pure_receiver(e.value)
        if isinstance(e, ast.Subscript):
            return _Modern._pure_receiver(e.value) and isinstance(e.slice, (ast.Constant, ast.Name))
        return False

    def visit_Call(self, node):
        self.generic_visit(node)
        f = node.func
        if isinstance(f, ast.Attribute) and f.attr in ('removeprefix', 'removesuffix') and len(node.args) == 1 and not node.keywords and \
                isinstance(node.args[0], ast.Constant) and isinstance(node.args[0].value, str) and node.args[0].value and \
                self._pure_receiver(f.value):
            k = len(node.args[0].value)
            if f.attr == 'removeprefix':
                cut = ast.Subscript(value=_clone(f.value), slice=ast.Slice(lower=ast.Constant(value=k), upper=None, step=None), ctx=ast.Load())
                test = ast.Call(func=ast.Attribute(value=_clone(f.value), attr='startswith', ctx=ast.Load()), args=[node.args[0]], keywords=[])
            else:
                cut = ast.Subscript(value=_clone(f.value), slice=ast.Slice(lower=None, upper=ast.UnaryOp(op=ast.USub(), operand=ast.Constant(value=k)), step=None),
                                    ctx=ast.Load())
                test = ast.Call(func=ast.Attribute(value=_clone(f.value), attr='endswith', ctx=ast.Load()), args=[node.args[0]], keywords=[])
            self.count += 1
            return _loc(ast.IfExp(test=test, body=cut, orelse=_clone(f.value)), node)
        return node

    # ---- starred items in a list display:  [a, *B, c]  ==>  [a] + list(B) + [c]   (same elements, same order of evaluation) ------------
    def visit_List(self, node):
        self.generic_visit(node)
        if not isinstance(node.ctx, ast.Load) or not any(isinstance(e, ast.Starred) for e in node.elts):
            return node
        parts, cur = [], []
        for e in node.elts:
            if isinstance(e, ast.Starred):
                if cur:
                    parts.append(ast.List(elts=cur, ctx=ast.Load()))
                    cur = []
                parts.append(ast.Call(func=ast.Name(id='list', ctx=ast.Load()), args=[e.value], keywords=[]))
            else:
                cur.append(e)
        if cur:
            parts.append(ast.List(elts=cur, ctx=ast.Load()))
        out = parts[0]
        for p_ in parts[1:]:
            out = ast.BinOp(left=out, op=ast.Add(), right=p_)
        self.count += 1
        return _loc(out, node)

    # ---- walrus ------------------------------------------------------------------------------------------------
    @staticmethod
    def _first(expr):
        """the NamedExpr that is evaluated before anything else with an effect in `expr`, with its parent and field, or None"""
        parent, field, idx, e = None, None, None, expr
        while True:
            if isinstance(e, ast.NamedExpr):
                return parent, field, idx, e
            if isinstance(e, ast.Compare):
                parent, field, idx, e = e, 'left', None, e.left
            elif isinstance(e, ast.BoolOp):
                parent, field, idx, e = e, 'values', 0, e.values[0]
            elif isinstance(e, ast.UnaryOp):
                parent, field, idx, e = e, 'operand', None, e.operand
            elif isinstance(e, ast.BinOp):
                parent, field, idx, e = e, 'left', None, e.left
            elif isinstance(e, (ast.Attribute, ast.Subscript, ast.Starred)):
                parent, field, idx, e = e, 'value', None, e.value
            elif isinstance(e, ast.IfExp):
                parent, field, idx, e = e, 'test', None, e.test
            elif isinstance(e, (ast.Tuple, ast.List)) and e.elts:
                parent, field, idx, e = e, 'elts', 0, e.elts[0]
            elif isinstance(e, ast.Call):
                if isinstance(e.func, ast.Name):
                    if not e.args:
                        return None
                    parent, field, idx, e = e, 'args', 0, e.args[0]
                else:
                    parent, field, idx, e = e, 'func', None, e.func
            else:
                return None

    @staticmethod
    def _put(parent, field, idx, new):
        if idx is None:
            setattr(parent, field, new)
        else:
            getattr(parent, field)[idx] = new

    def _hoist_first(self, holder, attr):
        """holder.attr is an expression: hoist its first-evaluated walrus; -> list of assignment statements (possibly empty)"""
        out = []
        while True:
            e = getattr(holder, attr)
            if e is None:
                return out
            if isinstance(e, ast.NamedExpr):
                out.append(_loc(ast.Assign(targets=[ast.Name(id=e.target.id, ctx=ast.Store())], value=e.value), e))
                setattr(holder, attr, _loc(ast.Name(id=e.target.id, ctx=ast.Load()), e))
                self.count += 1
                continue
            hit = self._first(e)
            if hit is None:
                return out
            parent, field, idx, w = hit
            out.append(_loc(ast.Assign(targets=[ast.Name(id=w.target.id, ctx=ast.Store())], value=w.value), w))
            self._put(parent, field, idx, _loc(ast.Name(id=w.target.id, ctx=ast.Load()), w))
            self.count += 1

    def _block(self, block):
        out = []
        for st in block:
            out.extend(self._stmt(st))
        return out

    def _stmt(self, st):
        if isinstance(st, (ast.FunctionDef, ast.AsyncFunctionDef, ast.ClassDef)):
            return [st]
        for f_ in ('body', 'orelse', 'finalbody'):
            blk = getattr(st, f_, None)
            if isinstance(blk, list) and blk and isinstance(blk[0], ast.stmt):
                setattr(st, f_, self._block(blk))
        if isinstance(st, ast.Try):
            for h in st.handlers:
                h.body = self._block(h.body)
        if isinstance(st, ast.Match):
            for c in st.cases:
                c.body = self._block(c.body)
            new = self._match(st)
            return new if new is not None else [st]
        if isinstance(st, ast.If):
            pre = self._hoist_first(st, 'test')
            # if A and (m := e) and REST: BODY   (no else)
            if not st.orelse and isinstance(st.test, ast.BoolOp) and isinstance(st.test.op, ast.And) and \
                    any(isinstance(n, ast.NamedExpr) for n in ast.walk(st.test)):
                vals = st.test.values
                k = next((i for i, v in enumerate(vals) if any(isinstance(n, ast.NamedExpr) for n in ast.walk(v))), None)
                if k and not any(isinstance(n, ast.NamedExpr) for v in vals[:k] for n in ast.walk(v)):
                    head = vals[0] if k == 1 else _loc(ast.BoolOp(op=ast.And(), values=vals[:k]), st.test)
                    rest = vals[k] if k == len(vals) - 1 else _loc(ast.BoolOp(op=ast.And(), values=vals[k:]), st.test)
                    inner = _loc(ast.If(test=rest, body=st.body, orelse=[]), st)
                    if self._first(rest) is not None or isinstance(rest, ast.NamedExpr):
                        st.test = head
                        st.body = self._stmt(inner)
                        self.count += 1
            # if A and (m := e) [and REST]: BODY else: ELSE   ==>   if A: m = e; if m' [and REST]: BODY else: ELSE   else: ELSE
            # (ELSE is written twice; it runs once, on the same condition as before)
            if st.orelse and isinstance(st.test, ast.BoolOp) and isinstance(st.test.op, ast.And) and \
                    any(isinstance(n, ast.NamedExpr) for n in ast.walk(st.test)):
                vals = st.test.values
                k = next((i for i, v in enumerate(vals) if any(isinstance(n, ast.NamedExpr) for n in ast.walk(v))), None)
                if k and not any(isinstance(n, ast.NamedExpr) for v in vals[:k] for n in ast.walk(v)):
                    head = vals[0] if k == 1 else _loc(ast.BoolOp(op=ast.And(), values=vals[:k]), st.test)
                    rest = vals[k] if k == len(vals) - 1 else _loc(ast.BoolOp(op=ast.And(), values=vals[k:]), st.test)
                    if self._first(rest) is not None or isinstance(rest, ast.NamedExpr):
                        inner = _loc(ast.If(test=rest, body=st.body, orelse=[_clone(x) for x in st.orelse]), st)
                        st.test = head
                        st.body = self._stmt(inner)
                        self.count += 1
            return pre + [st]
        if isinstance(st, ast.While) and not st.orelse and (isinstance(st.test, ast.NamedExpr) or self._first(st.test) is not None):
            holder = ast.If(test=st.test, body=[], orelse=[])
            pre = self._hoist_first(holder, 'test')
            brk = _loc(ast.If(test=ast.UnaryOp(op=ast.Not(), operand=holder.test), body=[ast.Break()], orelse=[]), st)
            st.test = _loc(ast.Constant(value=True), st)
            st.body = pre + [brk] + st.body
            return [st]
        if isinstance(st, ast.Assign) and len(st.targets) == 1 and isinstance(st.targets[0], ast.Name) and isinstance(st.value, ast.Call) and \
                isinstance(st.value.func, ast.Attribute) and st.value.func.attr in ('removeprefix', 'removesuffix') and \
                len(st.value.args) == 1 and not st.value.keywords and isinstance(st.value.args[0], ast.Constant) and \
                isinstance(st.value.args[0].value, str) and st.value.args[0].value and not self._pure_receiver(st.value.func.value) and \
                not any(isinstance(n, ast.Name) and n.id == st.targets[0].id for n in ast.walk(st.value.func.value)):
            # x = E.removeprefix('+')   ==>   x = E;  x = x.removeprefix('+')     (x is not read by E; the second statement is then
            # rewritten by the rule for pure receivers)
            nm = st.targets[0].id
            first = _loc(ast.Assign(targets=[ast.Name(id=nm, ctx=ast.Store())], value=st.value.func.value), st)
            call = ast.Call(func=ast.Attribute(value=ast.Name(id=nm, ctx=ast.Load()), attr=st.value.func.attr, ctx=ast.Load()),
                            args=st.value.args, keywords=[])
            second = _loc(ast.Assign(targets=[ast.Name(id=nm, ctx=ast.Store())], value=self.visit_Call(_loc(call, st))), st)
            self.count += 1
            return self._stmt(first) + [second]
        if isinstance(st, (ast.Assign, ast.Expr, ast.Return, ast.AugAssign)) and getattr(st, 'value', None) is not None:
            pre = self._hoist_first(st, 'value')
            return pre + [st]
        return [st]

    # ---- match -------------------------------------------------------------------------------------------------
    def _pattern_test(self, pat, subj):
        """-> test expression for a capture-free pattern, True for a wildcard, None when not supported"""
        def sub():
            return _clone(subj)
        if isinstance(pat, ast.MatchValue):
            v = pat.value
            if isinstance(v, (ast.Constant, ast.Attribute)) or (isinstance(v, ast.UnaryOp) and isinstance(v.operand, ast.Constant)):
                return ast.Compare(left=sub(), ops=[ast.Eq()], comparators=[v])
            return None
        if isinstance(pat, ast.MatchSingleton):
            return ast.Compare(left=sub(), ops=[ast.Is()], comparators=[ast.Constant(value=pat.value)])
        if isinstance(pat, ast.MatchAs) and pat.pattern is None and pat.name is None:
            return True
        if isinstance(pat, ast.MatchOr):
            parts = [self._pattern_test(p, subj) for p in pat.patterns]
            if any(p is None for p in parts):
                return None
            if any(p is True for p in parts):
                return True
            if all(isinstance(p.ops[0], ast.Eq) and isinstance(p.comparators[0], ast.Constant) and
                   isinstance(p.comparators[0].value, str) for p in parts):
                # x == 'a' or x == 'b'  is  x in ('a', 'b')  for every x (tuple membership tests identity or equality; for a
                # string literal both agree with ==)
                return ast.Compare(left=sub(), ops=[ast.In()], comparators=[ast.Tuple(elts=[p.comparators[0] for p in parts], ctx=ast.Load())])
            return ast.BoolOp(op=ast.Or(), values=parts)
        return None

    @staticmethod
    def _known_sequence(e):
        """the expression certainly yields a list or a tuple (so a sequence pattern only has to look at its length)"""
        if isinstance(e, (ast.List, ast.Tuple, ast.ListComp)):
            return True
        if isinstance(e, ast.Call):
            if isinstance(e.func, ast.Attribute) and e.func.attr in ('split', 'rsplit', 'partition', 'rpartition', 'splitlines'):
                return True
            if isinstance(e.func, ast.Name) and e.func.id in ('list', 'tuple', 'sorted'):
                return True
        return False

    def _sequence_arm(self, pat, subj):
        """-> (test, bindings) for a sequence pattern of captures / wildcards / literals / one star, on a known list or tuple"""
        elts = pat.patterns
        stars = [i for i, p in enumerate(elts) if isinstance(p, ast.MatchStar)]
        if len(stars) > 1:
            return None
        n = len(elts)
        ln = ast.Call(func=ast.Name(id='len', ctx=ast.Load()), args=[_clone(subj)], keywords=[])
        if stars:
            tests = [ast.Compare(left=ln, ops=[ast.GtE()], comparators=[ast.Constant(value=n - 1)])]
        else:
            tests = [ast.Compare(left=ln, ops=[ast.Eq()], comparators=[ast.Constant(value=n)])]
        binds = []
        for i, p in enumerate(elts):
            if stars and i > stars[0]:
                idx = ast.UnaryOp(op=ast.USub(), operand=ast.Constant(value=n - i))
            else:
                idx = ast.Constant(value=i)
            item = ast.Subscript(value=_clone(subj), slice=idx, ctx=ast.Load())
            if isinstance(p, ast.MatchStar):
                if p.name is not None:
                    after = n - 1 - i
                    sl = ast.Slice(lower=ast.Constant(value=i), upper=(ast.UnaryOp(op=ast.USub(), operand=ast.Constant(value=after)) if after else None), step=None)
                    val = ast.Call(func=ast.Name(id='list', ctx=ast.Load()), args=[ast.Subscript(value=_clone(subj), slice=sl, ctx=ast.Load())], keywords=[])
                    binds.append(_loc(ast.Assign(targets=[ast.Name(id=p.name, ctx=ast.Store())], value=val), p))
            elif isinstance(p, ast.MatchAs) and p.pattern is None:
                if p.name is not None:
                    binds.append(_loc(ast.Assign(targets=[ast.Name(id=p.name, ctx=ast.Store())], value=item), p))
            elif isinstance(p, ast.MatchValue) and isinstance(p.value, ast.Constant):
                tests.append(ast.Compare(left=item, ops=[ast.Eq()], comparators=[p.value]))
            elif isinstance(p, ast.MatchSingleton):
                tests.append(ast.Compare(left=item, ops=[ast.Is()], comparators=[ast.Constant(value=p.value)]))
            else:
                return None
        test = tests[0] if len(tests) == 1 else ast.BoolOp(op=ast.And(), values=tests)
        return test, binds

    def _match(self, st):
        subj = st.subject
        pre = []
        known_seq = self._known_sequence(subj)
        simple = isinstance(subj, ast.Name) or (isinstance(subj, ast.Attribute) and isinstance(subj.value, ast.Name))
        if not simple:
            self.tmp += 1
            nm = '__match%d' % self.tmp
            pre.append(_loc(ast.Assign(targets=[ast.Name(id=nm, ctx=ast.Store())], value=subj), st))
            subj = ast.Name(id=nm, ctx=ast.Load())
        arms = []          # (statements run when the arm is reached, test or True, body, case)
        for i, c in enumerate(st.cases):
            if isinstance(c.pattern, ast.MatchAs) and c.pattern.pattern is None and c.pattern.name is not None:
                # a bare capture always matches: the name is bound when the arm is reached, the guard (if any) then decides
                bind = _loc(ast.Assign(targets=[ast.Name(id=c.pattern.name, ctx=ast.Store())], value=_clone(subj)), c.pattern)
                arms.append(([bind], c.guard if c.guard is not None else True, c.body, c))
                continue
            if isinstance(c.pattern, ast.MatchSequence):
                if c.guard is not None or not (known_seq or isinstance(subj, ast.Name)):
                    return None
                arm = self._sequence_arm(c.pattern, subj)
                if arm is None:
                    return None
                test = arm[0]
                if not known_seq:
                    # what a sequence pattern asks first: a Sequence that is not a str / bytes / bytearray.  Kept as an explicit
                    # marker call; the flattener replaces it by True where the subject is known to be a list or a tuple.
                    mark = ast.Call(func=ast.Name(id='__sequence__', ctx=ast.Load()), args=[_clone(subj)], keywords=[])
                    test = ast.BoolOp(op=ast.And(), values=[mark] + (test.values if isinstance(test, ast.BoolOp) else [test]))
                arms.append(([], test, arm[1] + c.body, c))
                continue
            t = self._pattern_test(c.pattern, subj)
            if t is None:
                return None
            if c.guard is not None:
                t = c.guard if t is True else ast.BoolOp(op=ast.And(), values=[t, c.guard])
            arms.append(([], t, c.body, c))
        # an arm that always matches must be the last one (anything after it is unreachable; Python rejects that anyway)
        for k, (_p, t, _b, _c) in enumerate(arms):
            if t is True and k != len(arms) - 1:
                return None
        # a subject that is a name re-bound in an arm body is still fine: the remaining tests are never evaluated after a match;
        # a capture of the subject's own name would change what later tests read
        if simple and isinstance(subj, ast.Name) and any(isinstance(b, ast.Assign) and b.targets[0].id == subj.id for p_, _t, _b, _c in arms for b in p_):
            return None
        chain = []
        for p_, t, body, c in reversed(arms):
            if t is True:
                chain = list(p_) + list(body)
            else:
                node = ast.If(test=t, body=list(body), orelse=chain)
                _loc(node, c.pattern)
                chain = list(p_) + [node]
        if not chain:
            return None
        self.count += 1
        return pre + chain


def modern_syntax(tree):
    """in place; -> number of constructs rewritten"""
    m = _Modern()
    m.visit(tree)
    # module-level and class-level statement lists (function bodies are done by visit_FunctionDef)
    tree.body = m._block(tree.body)
    for n in ast.walk(tree):
        for p in ast.iter_child_nodes(n):
            p._parent = n
    ast.fix_missing_locations(tree)
    return m.count


# =====================================================================================================================
# Read-only properties as methods (package-wide, exact):
#
#     @property                          def total(self): ...
#     def total(self): ...      ==>
#     ... obj.total ...                  ... obj.total() ...
#
# applied to a property name X only when X means nothing else anywhere in the package: no setter / deleter, no other
# `def X` that is not such a property, no store or delete of an attribute X, no class-level binding of X, no string 'X'
# handed to getattr / setattr / hasattr / delattr.  Then every load `e.X` either reaches one of the property functions (and
# calls it, as `e.X()` now does) or raises AttributeError on `e.X` (as `e.X()` does, before evaluating anything else).
# =====================================================================================================================
def properties_to_methods(trees):
    props, other_defs, blocked = {}, set(), set()
    for t in trees:
        for n in ast.walk(t):
            if isinstance(n, (ast.FunctionDef, ast.AsyncFunctionDef)):
                decos = n.decorator_list
                if len(decos) == 1 and isinstance(decos[0], ast.Name) and decos[0].id == 'property':
                    props.setdefault(n.name, []).append(n)
                else:
                    other_defs.add(n.name)
                    for d in decos:
                        if isinstance(d, ast.Attribute) and d.attr in ('setter', 'deleter', 'getter') and isinstance(d.value, ast.Name):
                            blocked.add(d.value.id)
            elif isinstance(n, ast.Attribute) and isinstance(n.ctx, (ast.Store, ast.Del)):
                blocked.add(n.attr)
            elif isinstance(n, ast.ClassDef):
                other_defs.add(n.name)
                for st in n.body:
                    for tg in (st.targets if isinstance(st, ast.Assign) else [st.target] if isinstance(st, (ast.AnnAssign, ast.AugAssign)) else []):
                        for x in ast.walk(tg):
                            if isinstance(x, ast.Name):
                                blocked.add(x.id)
            elif isinstance(n, ast.Call) and isinstance(n.func, ast.Name) and n.func.id in ('getattr', 'setattr', 'hasattr', 'delattr'):
                for a in n.args[1:2]:
                    if isinstance(a, ast.Constant) and isinstance(a.value, str):
                        blocked.add(a.value)
                    else:
                        # a computed attribute name could be any name
                        pass
    names = {x for x in props if x not in other_defs and x not in blocked}
    if not names:
        return 0
    count = 0

    class T(ast.NodeTransformer):
        def visit_Attribute(self, node):
            nonlocal count
            self.generic_visit(node)
            if node.attr in names and isinstance(node.ctx, ast.Load):
                count += 1
                return _loc(ast.Call(func=node, args=[], keywords=[]), node)
            return node

    for t in trees:
        T().visit(t)
    for x in names:
        for fn in props[x]:
            fn.decorator_list = []
    for t in trees:
        ast.fix_missing_locations(t)
    return count


# =====================================================================================================================
# Module-level constants:  NAME = <literal>  bound exactly once in the module (at top level, outside any condition), never
# stored, deleted or declared global anywhere else in the module, and not a parameter where it is read: every read of NAME in the
# module then yields that literal, so the reads are replaced by it ('A' + 'B' of two literals is folded on the way).
# Names exported to other modules keep their binding statement (only reads inside this module are rewritten).
# =====================================================================================================================
def _literal(e):
    if isinstance(e, ast.Constant) and isinstance(e.value, (str, int, float)) and not isinstance(e.value, bool):
        return True
    if isinstance(e, ast.UnaryOp) and isinstance(e.op, ast.USub) and isinstance(e.operand, ast.Constant) and \
            isinstance(e.operand.value, (int, float)) and not isinstance(e.operand.value, bool):
        return True
    return False


def _fold_literal(e):
    """'x' * 3 and 'a' + 'b' of literals are literals"""
    if isinstance(e, ast.BinOp) and isinstance(e.left, ast.Constant) and isinstance(e.right, ast.Constant):
        l_, r_ = e.left.value, e.right.value
        if isinstance(e.op, ast.Mult) and isinstance(l_, str) and isinstance(r_, int) and not isinstance(r_, bool) and 0 <= r_ <= 64:
            return ast.copy_location(ast.Constant(value=l_ * r_), e)
        if isinstance(e.op, ast.Add) and isinstance(l_, str) and isinstance(r_, str):
            return ast.copy_location(ast.Constant(value=l_ + r_), e)
    return e


def module_constants(tree):
    cands = {}
    for st in tree.body:
        if isinstance(st, ast.Assign) and len(st.targets) == 1 and isinstance(st.targets[0], ast.Name):
            st.value = _fold_literal(st.value)
        if isinstance(st, ast.Assign) and len(st.targets) == 1 and isinstance(st.targets[0], ast.Name) and _literal(st.value):
            cands.setdefault(st.targets[0].id, []).append(st)
    if not cands:
        return 0
    stores = {}
    for n in ast.walk(tree):
        if isinstance(n, ast.Name) and isinstance(n.ctx, (ast.Store, ast.Del)):
            stores[n.id] = stores.get(n.id, 0) + 1
        elif isinstance(n, (ast.Global, ast.Nonlocal)):
            for nm in n.names:
                stores[nm] = stores.get(nm, 0) + 2
        elif isinstance(n, ast.arg):
            stores[n.arg] = stores.get(n.arg, 0) + 2
        elif isinstance(n, (ast.FunctionDef, ast.AsyncFunctionDef, ast.ClassDef)):
            stores[n.name] = stores.get(n.name, 0) + 2
        elif isinstance(n, ast.alias):
            nm = (n.asname or n.name).split('.')[0]
            stores[nm] = stores.get(nm, 0) + 2
        elif isinstance(n, ast.ExceptHandler) and n.name:
            stores[n.name] = stores.get(n.name, 0) + 2
    consts = {nm: lst[0].value for nm, lst in cands.items() if len(lst) == 1 and stores.get(nm, 0) == 1 and
              not (nm.startswith('__') and nm.endswith('__'))}
    if not consts:
        return 0
    count = 0

    class T(ast.NodeTransformer):
        def visit_Name(self, n):
            nonlocal count
            if isinstance(n.ctx, ast.Load) and n.id in consts:
                count += 1
                return _loc(_clone(consts[n.id]), n)
            return n

        def visit_BinOp(self, n):
            self.generic_visit(n)
            if isinstance(n.op, ast.Add) and isinstance(n.left, ast.Constant) and isinstance(n.right, ast.Constant) and \
                    isinstance(n.left.value, str) and isinstance(n.right.value, str):
                return _loc(ast.Constant(value=n.left.value + n.right.value), n)
            return n
    for st in tree.body:
        if isinstance(st, (ast.FunctionDef, ast.AsyncFunctionDef, ast.ClassDef)):
            T().visit(st)
    return count


# =====================================================================================================================
# NamedTuple records as plain tuples (package-wide):
#
#     class _Pair(NamedTuple):            _Pair(a, b)   ==>  (a, b)         _Pair(Right=b, Left=a)  ==>  (a, b)
#         Left: float                     e.Left        ==>  e[0]
#         Right: str = ''                 e.Right       ==>  e[1]
#
# A NamedTuple instance IS a tuple with these items; reading a field by name is reading the item.  Applied to a class only
# when its field names mean nothing else in the package (no other attribute / method / class-level name of that spelling is
# defined or stored anywhere), the class has no methods of its own and is only ever used by calling it directly by name; then
# every `e.Left` in the package reads a `_Pair` (or fails with AttributeError, the one case where `e[0]` could differ - such a
# read is an error in either form).  Keyword arguments are put in field order (they are evaluated in call order, which is
# kept when the arguments are names / constants; otherwise the class is left alone).
# =====================================================================================================================
def records_to_tuples(trees):
    recs = {}
    for t in trees:
        for st in t.body:
            if not isinstance(st, ast.ClassDef) or st.decorator_list or len(st.bases) != 1:
                continue
            b = st.bases[0]
            nm = b.attr if isinstance(b, ast.Attribute) else getattr(b, 'id', '')
            if nm not in ('NamedTuple', '_NamedTuple'):
                continue
            fields, ok = [], True
            for x in st.body:
                if isinstance(x, ast.Expr) and isinstance(x.value, ast.Constant):
                    continue
                if isinstance(x, ast.Pass):
                    continue
                if isinstance(x, ast.AnnAssign) and isinstance(x.target, ast.Name):
                    fields.append((x.target.id, x.value))
                    continue
                ok = False
            if ok and fields and st.name not in recs:
                recs[st.name] = (st, fields)
            elif st.name in recs:
                recs[st.name] = None
    recs = {k: v for k, v in recs.items() if v}
    if not recs:
        return 0
    field_owner = {}
    for cname, (st, fields) in recs.items():
        for i, (f, _d) in enumerate(fields):
            field_owner.setdefault(f, []).append((cname, i))
    # every other meaning of a field name, every other use of a record class name
    blocked_fields, blocked_cls = set(), set()
    for t in trees:
        for n in ast.walk(t):
            if isinstance(n, (ast.FunctionDef, ast.AsyncFunctionDef)):
                blocked_fields.add(n.name)
            elif isinstance(n, ast.Attribute) and isinstance(n.ctx, (ast.Store, ast.Del)):
                blocked_fields.add(n.attr)
            elif isinstance(n, ast.ClassDef):
                if n.name not in recs or recs[n.name][0] is not n:
                    for x in n.body:
                        for tg in (x.targets if isinstance(x, ast.Assign) else [x.target] if isinstance(x, (ast.AnnAssign, ast.AugAssign)) else []):
                            for y in ast.walk(tg):
                                if isinstance(y, ast.Name):
                                    blocked_fields.add(y.id)
                    for b in n.bases:
                        for y in ast.walk(b):
                            if isinstance(y, ast.Name) and y.id in recs:
                                blocked_cls.add(y.id)
            elif isinstance(n, ast.Call) and isinstance(n.func, ast.Name) and n.func.id in ('getattr', 'setattr', 'hasattr', 'delattr'):
                for a in n.args[1:2]:
                    if isinstance(a, ast.Constant) and isinstance(a.value, str):
                        blocked_fields.add(a.value)
    for t in trees:
        parents = {}
        for n in ast.walk(t):
            for c in ast.iter_child_nodes(n):
                parents[c] = n
        for n in ast.walk(t):
            if isinstance(n, ast.Name) and n.id in recs and isinstance(n.ctx, ast.Load):
                p = parents.get(n)
                if isinstance(p, ast.Call) and p.func is n:
                    cname = n.id
                    fields = recs[cname][1]
                    names = [f for f, _ in fields]
                    if any(isinstance(a, ast.Starred) for a in p.args) or any(k.arg is None or k.arg not in names for k in p.keywords) or \
                            len(p.args) > len(names):
                        blocked_cls.add(cname)
                    elif p.keywords and not all(isinstance(k.value, (ast.Name, ast.Constant)) for k in p.keywords):
                        blocked_cls.add(cname)
                    continue
                # annotations were already removed; any other mention (isinstance, attribute of the class, ...) blocks
                blocked_cls.add(n.id)
            elif isinstance(n, ast.Attribute) and n.attr in recs:
                # `utils._Rec(..)` / `sfc_models.utils._Rec(..)`: the class reached through its module (a dotted chain of names) and
                # called at once is the same constructor call; any other mention through an attribute blocks
                p = parents.get(n)
                base = n.value
                while isinstance(base, ast.Attribute):
                    base = base.value
                if isinstance(p, ast.Call) and p.func is n and isinstance(base, ast.Name):
                    names = [f for f, _ in recs[n.attr][1]]
                    if any(isinstance(a, ast.Starred) for a in p.args) or any(k.arg is None or k.arg not in names for k in p.keywords) or \
                            len(p.args) > len(names) or (p.keywords and not all(isinstance(k.value, (ast.Name, ast.Constant)) for k in p.keywords)):
                        blocked_cls.add(n.attr)
                else:
                    blocked_cls.add(n.attr)
    # a field spelled like a method / attribute of a builtin container or string (`values`, `count`, `index`, ..) cannot be told
    # from that method by its name: such a class is left to the flattener, which converts record objects held in a local
    builtin_attrs = set()
    for ty_ in (dict, list, tuple, str, set, int, float, object):
        builtin_attrs.update(dir(ty_))
    for f, owners in field_owner.items():
        if len({i for _c, i in owners}) > 1 or f in blocked_fields or f in builtin_attrs:
            for c, _i in owners:
                blocked_cls.add(c)
    live = {c: v for c, v in recs.items() if c not in blocked_cls}
    if not live:
        return 0
    index_of = {}
    for cname, (st, fields) in live.items():
        for i, (f, _d) in enumerate(fields):
            index_of[f] = i
    count = 0

    class T(ast.NodeTransformer):
        def visit_Call(self, node):
            nonlocal count
            self.generic_visit(node)
            cname_ = node.func.id if isinstance(node.func, ast.Name) else (node.func.attr if isinstance(node.func, ast.Attribute) else None)
            if cname_ in live:
                fields = live[cname_][1]
                vals = list(node.args) + [None] * (len(fields) - len(node.args))
                for k in node.keywords:
                    vals[[f for f, _ in fields].index(k.arg)] = k.value
                for i, (f, d) in enumerate(fields):
                    if vals[i] is None:
                        if d is None:
                            return node
                        vals[i] = _clone(d)
                count += 1
                return _loc(ast.Tuple(elts=vals, ctx=ast.Load()), node)
            return node

        def visit_Attribute(self, node):
            nonlocal count
            self.generic_visit(node)
            if isinstance(node.ctx, ast.Load) and node.attr in index_of:
                count += 1
                return _loc(ast.Subscript(value=node.value, slice=ast.Constant(value=index_of[node.attr]), ctx=ast.Load()), node)
            return node
    for t in trees:
        T().visit(t)
        ast.fix_missing_locations(t)
    return count
