"""E6 - local dataflow helpers: linear forms, flow-sensitive may-alias / escape analysis, reaching definitions."""
import ast
from fractions import Fraction

from .loader import unparse, call_name, attr_chain

# ------------------------------------------------------------------------------------------------
# linear forms  a1*x1 + ... + c   over atoms (names, attribute chains, len(...) calls)
# ------------------------------------------------------------------------------------------------


def linform(expr, subst=None, depth=0):
    """expression -> {atom: coef, '': const} or None when not linear.  `subst` maps local names to expressions
    (single-assignment aliases) and is applied transitively (bounded)."""
    subst = subst or {}
    if isinstance(expr, ast.Constant):
        if isinstance(expr.value, bool) or not isinstance(expr.value, (int, float)):
            return None
        return {'': Fraction(expr.value).limit_denominator(10**9)}
    if isinstance(expr, ast.Name):
        if expr.id in subst and depth < 6:
            return linform(subst[expr.id], subst, depth + 1)
        return {expr.id: Fraction(1), '': Fraction(0)}
    if isinstance(expr, ast.Attribute):
        ch = attr_chain(expr)
        if ch is None:
            return None
        return {'.'.join(ch): Fraction(1), '': Fraction(0)}
    if isinstance(expr, ast.Call):
        nm = call_name(expr)
        if nm == 'len' and len(expr.args) == 1:
            return {'len(%s)' % unparse(expr.args[0]): Fraction(1), '': Fraction(0)}
        if nm in ('int', 'float') and len(expr.args) == 1:
            return linform(expr.args[0], subst, depth)
        return None
    if isinstance(expr, ast.UnaryOp) and isinstance(expr.op, (ast.USub, ast.UAdd)):
        f = linform(expr.operand, subst, depth)
        if f is None:
            return None
        s = -1 if isinstance(expr.op, ast.USub) else 1
        return {k: s * v for k, v in f.items()}
    if isinstance(expr, ast.BinOp):
        a = linform(expr.left, subst, depth)
        b = linform(expr.right, subst, depth)
        if a is None or b is None:
            return None
        if isinstance(expr.op, (ast.Add, ast.Sub)):
            s = 1 if isinstance(expr.op, ast.Add) else -1
            out = dict(a)
            for k, v in b.items():
                out[k] = out.get(k, Fraction(0)) + s * v
            return out
        if isinstance(expr.op, ast.Mult):
            ca = _const_only(a)
            cb = _const_only(b)
            if ca is not None:
                return {k: ca * v for k, v in b.items()}
            if cb is not None:
                return {k: cb * v for k, v in a.items()}
            return None
        return None
    return None


def _const_only(f):
    if all(v == 0 for k, v in f.items() if k != ''):
        return f.get('', Fraction(0))
    return None


def lin_norm(f):
    if f is None:
        return None
    out = {k: v for k, v in f.items() if v != 0 or k == ''}
    out.setdefault('', Fraction(0))
    return out


def lin_eq(f, g):
    f, g = lin_norm(f), lin_norm(g)
    return f is not None and g is not None and f == g


def lin_str(f):
    if f is None:
        return '<non-linear>'
    f = lin_norm(f)
    parts = []
    for k in sorted(k for k in f if k):
        c = f[k]
        parts.append(('%s' % k) if c == 1 else ('%s*%s' % (c, k)))
    if f[''] != 0 or not parts:
        parts.append(str(f['']))
    return ' + '.join(parts)


def single_assign_subst(func):
    """names assigned exactly once in the function by a plain `x = expr` (not in a loop target, not augmented)"""
    counts, exprs = {}, {}
    texts = {}
    if isinstance(func, (ast.FunctionDef, ast.AsyncFunctionDef)):
        a_ = func.args
        for p_ in a_.posonlyargs + a_.args + a_.kwonlyargs + [x for x in (a_.vararg, a_.kwarg) if x is not None]:
            counts[p_.arg] = 1          # a parameter that is re-bound has two definitions
    for n in ast.walk(func):
        if isinstance(n, ast.Assign):
            for t in n.targets:
                for nm in _target_names(t):
                    if isinstance(t, ast.Name) and texts.get(nm) == ast.dump(n.value) and counts.get(nm, 0) >= 1:
                        continue        # the same binding written in two branches (left by an inlined helper) is one definition
                    counts[nm] = counts.get(nm, 0) + 1
                if isinstance(t, ast.Name):
                    exprs[t.id] = n.value
                    texts.setdefault(t.id, ast.dump(n.value))
        elif isinstance(n, (ast.AugAssign, ast.AnnAssign)):
            for nm in _target_names(n.target):
                counts[nm] = counts.get(nm, 0) + 2
        elif isinstance(n, (ast.For, ast.comprehension)):
            for nm in _target_names(n.target):
                counts[nm] = counts.get(nm, 0) + 2
        elif isinstance(n, ast.With):
            for it in n.items:
                if it.optional_vars is not None:
                    for nm in _target_names(it.optional_vars):
                        counts[nm] = counts.get(nm, 0) + 2
    return {k: v for k, v in exprs.items() if counts.get(k) == 1}


def _target_names(t):
    if isinstance(t, ast.Name):
        return [t.id]
    if isinstance(t, (ast.Tuple, ast.List)):
        out = []
        for e in t.elts:
            out.extend(_target_names(e))
        return out
    if isinstance(t, ast.Starred):
        return _target_names(t.value)
    return []


target_names = _target_names

# ------------------------------------------------------------------------------------------------
# may-alias / escape analysis
# ------------------------------------------------------------------------------------------------
ALIAS, SHALLOW, FRESH = 'alias', 'shallow', 'fresh'

COPY_CALLS = {'list', 'sorted', 'tuple', 'dict', 'set', 'frozenset', 'reversed'}
SCALAR_CALLS = {'str', 'repr', 'len', 'int', 'float', 'abs', 'min', 'max', 'sum', 'round', 'bool', 'range',
                'format', 'type', 'isinstance', 'enumerate', 'zip', 'any', 'all'}
COPY_METHODS = {'copy', 'deepcopy'}
STR_METHODS = {'join', 'format', 'strip', 'lstrip', 'rstrip', 'lower', 'upper', 'replace', 'split', 'decode',
               'encode', 'startswith', 'endswith', 'find', 'keys', 'items', 'values'}
MUTATORS = {'pop', 'append', 'remove', 'sort', 'reverse', 'extend', 'insert', 'clear', 'update', 'setdefault',
            'popitem'}


class AliasAnalysis(object):
    """Flow-sensitive may-alias of local names with stored state.

    roots: `self` (and, when params_are_state, every parameter) denote stored state; attribute / index chains from
    a root are ALIAS; copy operations give SHALLOW (new container, elements possibly stored objects) or FRESH."""

    def __init__(self, cfg, func, prog=None, cls=None, state_params=('self',), returns_fresh=None):
        self.cfg = cfg
        self.func = func
        self.prog = prog
        self.cls = cls
        self.state_params = set(state_params)
        self.returns_fresh = returns_fresh or (lambda call: None)
        self.in_state = {}
        self._run()

    def classify(self, e, env):
        if e is None or isinstance(e, (ast.Constant, ast.JoinedStr, ast.Compare, ast.BoolOp)):
            return {FRESH}
        if isinstance(e, ast.Name):
            if e.id in env:
                return set(env[e.id])
            if e.id in self.state_params:
                return {ALIAS}
            return {FRESH}
        if isinstance(e, ast.Attribute):
            base = self.classify(e.value, env)
            return {ALIAS} if (ALIAS in base or SHALLOW in base) else {FRESH}
        if isinstance(e, ast.Subscript):
            base = self.classify(e.value, env)
            if isinstance(e.slice, ast.Slice):
                return {SHALLOW} if (ALIAS in base or SHALLOW in base) else {FRESH}
            return {ALIAS} if (ALIAS in base or SHALLOW in base) else {FRESH}
        if isinstance(e, ast.IfExp):
            return self.classify(e.body, env) | self.classify(e.orelse, env)
        if isinstance(e, (ast.BinOp,)):
            l, r = self.classify(e.left, env), self.classify(e.right, env)
            if isinstance(e.op, (ast.Add, ast.Mult)) and (ALIAS in l | r or SHALLOW in l | r):
                return {SHALLOW}
            return {FRESH}
        if isinstance(e, ast.UnaryOp):
            return {FRESH}
        if isinstance(e, (ast.ListComp, ast.SetComp, ast.DictComp, ast.GeneratorExp)):
            return {SHALLOW}
        if isinstance(e, (ast.List, ast.Tuple, ast.Set)):
            tags = set()
            for x in e.elts:
                tags |= self.classify(x, env)
            return {SHALLOW} if (ALIAS in tags or SHALLOW in tags) else {FRESH}
        if isinstance(e, ast.Dict):
            return {SHALLOW}
        if isinstance(e, ast.Call):
            nm = call_name(e)
            if isinstance(e.func, ast.Name):
                if nm in COPY_CALLS:
                    inner = set()
                    for a in e.args:
                        inner |= self.classify(a, env)
                    return {SHALLOW} if (ALIAS in inner or SHALLOW in inner) else {FRESH}
                if nm in SCALAR_CALLS:
                    return {FRESH}
                if nm == 'getattr':
                    base = self.classify(e.args[0], env) if e.args else {FRESH}
                    return {ALIAS} if (ALIAS in base or SHALLOW in base) else {FRESH}
            if isinstance(e.func, ast.Attribute):
                if nm == 'deepcopy':
                    return {FRESH}
                if nm == 'copy':
                    return {SHALLOW}
                if nm in STR_METHODS:
                    return {FRESH} if nm not in ('values', 'items') else {SHALLOW}
                if nm in ('get', 'pop', 'setdefault', '__getitem__'):
                    base = self.classify(e.func.value, env)
                    return {ALIAS} if (ALIAS in base or SHALLOW in base) else {FRESH}
            r = self.returns_fresh(e)
            if r is True:
                return {FRESH}
            if r is False:
                return {ALIAS}
            return {FRESH}
        if isinstance(e, ast.Starred):
            return self.classify(e.value, env)
        return {FRESH}

    def _transfer(self, node, env):
        env = {k: set(v) for k, v in env.items()}
        s = node.ast
        if node.kind == 'for':
            tags = self.classify(s.iter, env)
            elt = {ALIAS} if (ALIAS in tags or SHALLOW in tags) else {FRESH}
            for nm in _target_names(s.target):
                env[nm] = set(elt)
            return env
        if node.kind == 'with':
            for it in s.items:
                if it.optional_vars is not None:
                    for nm in _target_names(it.optional_vars):
                        env[nm] = {FRESH}
            return env
        if node.kind != 'stmt':
            return env
        if isinstance(s, ast.Assign):
            tags = self.classify(s.value, env)
            for t in s.targets:
                if isinstance(t, ast.Name):
                    env[t.id] = set(tags)
                elif isinstance(t, (ast.Tuple, ast.List)):
                    elt = {ALIAS} if (ALIAS in tags or SHALLOW in tags) else {FRESH}
                    for nm in _target_names(t):
                        env[nm] = set(elt)
        elif isinstance(s, ast.AugAssign):
            if isinstance(s.target, ast.Name):
                pass  # in-place on the same object: tags unchanged
        elif isinstance(s, ast.AnnAssign) and s.value is not None and isinstance(s.target, ast.Name):
            env[s.target.id] = self.classify(s.value, env)
        return env

    def _run(self):
        cfg = self.cfg
        self.in_state = {n.id: None for n in cfg.nodes}
        # parameters that denote caller-visible state start as aliases; a re-binding replaces the tags, a join unions them
        self.in_state[cfg.entry.id] = {p: {ALIAS} for p in self.state_params}
        work = [cfg.entry.id]
        while work:
            a = work.pop()
            env = self.in_state[a]
            out = self._transfer(cfg.nodes[a], env)
            for b, _ in cfg.succ[a]:
                cur = self.in_state[b]
                if cur is None:
                    self.in_state[b] = {k: set(v) for k, v in out.items()}
                    work.append(b)
                else:
                    changed = False
                    for k, v in out.items():
                        if k not in cur:
                            cur[k] = set(v)
                            changed = True
                        elif not v <= cur[k]:
                            cur[k] |= v
                            changed = True
                    if changed:
                        work.append(b)

    def env_at(self, node):
        return self.in_state.get(node.id) or {}

    def tags(self, expr, node):
        return self.classify(expr, self.env_at(node))


def mutations_in(stmt_or_expr):
    """(kind, receiver expression, node) for every syntactic mutation inside the given AST"""
    out = []
    for n in ast.walk(stmt_or_expr):
        if isinstance(n, ast.Call) and isinstance(n.func, ast.Attribute) and n.func.attr in MUTATORS:
            out.append((n.func.attr, n.func.value, n))
        elif isinstance(n, ast.Delete):
            for t in n.targets:
                if isinstance(t, ast.Subscript):
                    out.append(('del[]', t.value, n))
                elif isinstance(t, ast.Attribute):
                    out.append(('delattr', t.value, n))
        elif isinstance(n, ast.Assign):
            for t in n.targets:
                for tt in ([t] if not isinstance(t, (ast.Tuple, ast.List)) else t.elts):
                    if isinstance(tt, ast.Subscript):
                        out.append(('[]=', tt.value, n))
                    elif isinstance(tt, ast.Attribute):
                        out.append(('attr=', tt.value, n))
        elif isinstance(n, ast.AugAssign):
            if isinstance(n.target, ast.Subscript):
                out.append(('[]+=', n.target.value, n))
            elif isinstance(n.target, ast.Attribute):
                out.append(('attr+=', n.target.value, n))
            elif isinstance(n.target, ast.Name):
                out.append(('+=', n.target, n))
    return out


def own_exprs(node):
    """the expressions evaluated *at* a CFG node (not those of nested statements)"""
    s = node.ast
    if node.kind == 'test':
        return [s]
    if node.kind == 'for':
        return [s.iter]
    if node.kind == 'with':
        return [it.context_expr for it in s.items]
    if node.kind == 'except':
        return []
    return [s] if s is not None else []


# ------------------------------------------------------------------------------------------------
# generic forward dataflow over a CFG (may-analysis: states are dict var -> set of tags, joined by union)
# ------------------------------------------------------------------------------------------------
def forward(cfg, init, transfer, refine=None, start=None):
    """returns in-state per node id.  transfer(node, state) -> state after the node;
    refine(node, label, state) -> state along the edge with that label (or None to kill the edge)."""
    start = start if start is not None else cfg.entry.id
    ins = {start: {k: set(v) for k, v in init.items()}}
    work = [start]
    while work:
        a = work.pop()
        st = ins[a]
        out = transfer(cfg.nodes[a], {k: set(v) for k, v in st.items()})
        for b, lab in cfg.succ[a]:
            o = out
            if refine is not None:
                o = refine(cfg.nodes[a], lab, {k: set(v) for k, v in out.items()})
                if o is None:
                    continue
            cur = ins.get(b)
            if cur is None:
                ins[b] = {k: set(v) for k, v in o.items()}
                work.append(b)
            else:
                changed = False
                for k, v in o.items():
                    if k not in cur:
                        cur[k] = set(v)
                        changed = True
                    elif not v <= cur[k]:
                        cur[k] |= v
                        changed = True
                if changed:
                    work.append(b)
    return ins


# ---- path search with truthiness constants -----------------------------------------------------------------------
# A small path-sensitive reachability: walk the CFG from given start nodes carrying an environment
#   name -> abstract value,   abstract value = (truth, elements)   truth in {True, False, None(unknown)}
# Assignments of constants, tuples, non-empty/empty string literals, `'..'.format(..)`, copies of known names and
# tuple unpacking update the environment; tests over known names prune the infeasible branch.

def truth_of(expr, env):
    """-> (truth, elts)"""
    if isinstance(expr, ast.Constant):
        if expr.value is None:
            return (False, 'NONE')
        if isinstance(expr.value, int) and not isinstance(expr.value, bool) and expr.value >= 0:
            return (bool(expr.value), ('INT', min(expr.value, 2)))      # 2 stands for "two or more"
        if isinstance(expr.value, str):
            import re as _re
            lit = _re.sub(r'\{[^{}]*\}', '', expr.value)
            return (bool(expr.value), ('STR', bool(lit)))             # a template with literal text formats to a non-empty string
        return (bool(expr.value), None)
    if isinstance(expr, ast.Name):
        v = env.get(expr.id, (None, None))
        if v[0] is None and isinstance(v[1], tuple) and v[1] and v[1][0] == 'DEFER':
            # a boolean combination of names that were unknown when it was assigned: evaluated against what is known now
            # (the entry is dropped as soon as one of its operands is re-bound)
            env2 = {k: w for k, w in env.items() if k != expr.id}
            return (truth_of(_DEFERRED[v[1][1]], env2)[0], v[1])
        return v
    if isinstance(expr, ast.Attribute):
        k = path_key(expr)
        if k is not None and k in env:
            return env[k]
        return env.get('*.' + expr.attr, (None, None))
    if isinstance(expr, ast.List) and not expr.elts:
        return (False, ('LEN', 0))          # a fresh empty list: its length is followed through appends (2 = two or more)
    if isinstance(expr, (ast.Tuple, ast.List)):
        elts = tuple(truth_of(e, env) for e in expr.elts)
        return (bool(elts), elts)
    if isinstance(expr, ast.Dict):
        return (True if expr.keys else False, None)
    if isinstance(expr, ast.JoinedStr):
        lit = any(isinstance(v, ast.Constant) and v.value for v in expr.values)
        return (True if lit else None, None)
    if isinstance(expr, ast.UnaryOp) and isinstance(expr.op, ast.Not):
        t = truth_of(expr.operand, env)[0]
        return (None if t is None else (not t), None)
    if isinstance(expr, ast.BoolOp):
        ts = [truth_of(v, env)[0] for v in expr.values]
        if isinstance(expr.op, ast.And):
            if any(t is False for t in ts):
                return (False, None)
            if all(t is True for t in ts):
                return (True, None)
        else:
            if any(t is True for t in ts):
                return (True, None)
            if all(t is False for t in ts):
                return (False, None)
        return (None, None)
    if isinstance(expr, ast.Call):
        f = expr.func
        # 'text {0}'.format(...) / 'text %s' % ... keep their literal characters
        if isinstance(f, ast.Attribute) and f.attr == 'format' and isinstance(f.value, ast.Constant) \
                and isinstance(f.value.value, str):
            import re as _re
            lit = _re.sub(r'\{[^{}]*\}', '', f.value.value)
            return (True if lit else None, None)
        if isinstance(f, ast.Attribute) and f.attr == 'format' and isinstance(f.value, ast.Name):
            v = env.get(f.value.id, (None, None))
            if isinstance(v[1], tuple) and v[1] and v[1][0] == 'STR' and v[1][1]:
                return (True, None)
            return (None, 'OBJ')        # the result of str.format is a string: possibly empty, never None
        if isinstance(f, ast.Name) and f.id in ('str', 'repr') and len(expr.args) == 1:
            return (None, 'OBJ')
        if isinstance(f, ast.Name) and f.id == 'bool' and len(expr.args) == 1:
            return (truth_of(expr.args[0], env)[0], None)
        if isinstance(f, ast.Name) and f.id[:1].isupper() and f.id.endswith(('Error', 'Exception', 'Warning')):
            return (True, 'OBJ')        # a constructed exception object: truthy, never None
        if isinstance(f, ast.Name) and f.id == 'len' and len(expr.args) == 1 and not expr.keywords:
            # the length of a list whose appends are followed is a small counter
            lm = truth_of(expr.args[0], env)[1]
            if isinstance(lm, tuple) and lm and lm[0] == 'LEN':
                return (lm[1] > 0, ('INT', lm[1]))
        return (None, None)
    if isinstance(expr, ast.BinOp) and isinstance(expr.op, ast.Mod) and isinstance(expr.left, ast.Constant) \
            and isinstance(expr.left.value, str):
        import re as _re
        lit = _re.sub(r'%[-+ #0-9.]*[a-zA-Z]', '', expr.left.value)
        return (True if lit else None, None)
    if isinstance(expr, ast.Compare) and len(expr.ops) == 1:
        l, r, op = expr.left, expr.comparators[0], expr.ops[0]
        # len(<list whose length is known>) behaves like a small counter
        if isinstance(l, ast.Call) and isinstance(l.func, ast.Name) and l.func.id == 'len' and len(l.args) == 1:
            lm = truth_of(l.args[0], env)[1]
            if isinstance(lm, tuple) and lm and lm[0] == 'LEN' and isinstance(r, ast.Constant) and isinstance(r.value, int) \
                    and not isinstance(r.value, bool):
                k = r.value
                cands = [lm[1]] if lm[1] < 2 else [2, 3, 1000]
                fn = {ast.Eq: lambda a: a == k, ast.NotEq: lambda a: a != k, ast.Lt: lambda a: a < k, ast.LtE: lambda a: a <= k,
                      ast.Gt: lambda a: a > k, ast.GtE: lambda a: a >= k}.get(type(op))
                if fn is not None:
                    res = {fn(a) for a in cands}
                    return (res.pop(), None) if len(res) == 1 else (None, None)
        # small counters against integer literals
        lv, rv = truth_of(l, env)[1], truth_of(r, env)[1]
        if isinstance(lv, tuple) and lv and lv[0] == 'INT' and isinstance(r, ast.Constant) and isinstance(r.value, int) \
                and not isinstance(r.value, bool):
            k = r.value
            cands = [lv[1]] if lv[1] < 2 else [2, 3, 1000]
            fn = {ast.Eq: lambda a: a == k, ast.NotEq: lambda a: a != k, ast.Lt: lambda a: a < k, ast.LtE: lambda a: a <= k,
                  ast.Gt: lambda a: a > k, ast.GtE: lambda a: a >= k}.get(type(op))
            if fn is not None:
                res = {fn(a) for a in cands}
                if len(res) == 1:
                    return (res.pop(), None)
                return (None, None)
        # len(x) > 0, len(x) != 0, len(x) == 0, len(x) >= 1
        if isinstance(l, ast.Call) and isinstance(l.func, ast.Name) and l.func.id == 'len' and len(l.args) == 1 \
                and isinstance(r, ast.Constant) and r.value in (0, 1):
            t = truth_of(l.args[0], env)[0]
            if t is None:
                return (None, None)
            nonempty = (isinstance(op, (ast.Gt, ast.NotEq)) and r.value == 0) or (isinstance(op, ast.GtE) and r.value == 1)
            empty = (isinstance(op, ast.Eq) and r.value == 0) or (isinstance(op, ast.Lt) and r.value == 1)
            if nonempty:
                return (t, None)
            if empty:
                return (not t, None)
            return (None, None)
        # x != '' / x == '' / x is None / x is not None
        for a, b in ((l, r), (r, l)):
            if isinstance(b, ast.Constant) and (b.value == '' or b.value is None):
                t, mark = truth_of(a, env)
                if mark == 'OBJ' and b.value is None:
                    return (isinstance(op, (ast.NotEq, ast.IsNot)), None)
                if t is None:
                    return (None, None)
                is_none = (mark == 'NONE')
                if b.value is None:
                    known = True if (t is False and is_none) else (False if t is True else None)
                else:
                    known = None if is_none else (not t)
                    if t is False and not is_none:
                        known = None        # falsy but not necessarily the empty string
                    if t is True:
                        known = False
                if known is None:
                    return (None, None)
                if isinstance(op, (ast.NotEq, ast.IsNot)):
                    return (not known, None)
                if isinstance(op, (ast.Eq, ast.Is)):
                    return (known, None)
    return (None, None)


def path_key(e):
    """'a.b().c' for an access path of names, attributes and argument-less calls; None otherwise"""
    if isinstance(e, ast.Name):
        return e.id
    if isinstance(e, ast.Attribute):
        b = path_key(e.value)
        return None if b is None else b + '.' + e.attr
    if isinstance(e, ast.Call) and not e.args and not e.keywords:
        b = path_key(e.func)
        return None if b is None else b + '()'
    return None


_DEFERRED = {}      # canonical text of a deferred expression -> its syntax tree (state keys must compare by value)


def _invalidate(name, env):
    """`name` is about to be re-bound: deferred expressions over it are settled with what is known now, or dropped"""
    for k in [k for k, w in env.items() if isinstance(w[1], tuple) and w[1] and w[1][0] == 'DEFER' and name in w[1][2]]:
        w = env[k]
        t = w[0] if w[0] is not None else truth_of(_DEFERRED[w[1][1]], {a: b for a, b in env.items() if a != k})[0]
        if t is None:
            env.pop(k, None)
        else:
            env[k] = (t, None)


def _deferred(value, env, target_name):
    """(None, ('DEFER', expr, operand names)) for `a or b`, `a and b`, `not a`, comparisons of names with constants -
    with the operands that are known now (the target's own old value included) frozen into the expression"""
    if not isinstance(value, (ast.BoolOp, ast.UnaryOp, ast.Compare)):
        return None
    from .loader import clone

    class Freeze(ast.NodeTransformer):
        def __init__(self):
            self.deps = set()
            self.bad = False

        def visit_Name(self, node):
            t = truth_of(node, env)[0]
            if t is not None:
                return ast.copy_location(ast.Constant(value=t), node)
            if node.id == target_name:
                self.bad = True
            self.deps.add(node.id)
            return node

        def visit_Call(self, node):
            self.bad = True
            return node
    fz = Freeze()
    e2 = fz.visit(clone(value))
    if fz.bad or not fz.deps:
        return None
    key = ast.dump(e2)
    _DEFERRED[key] = e2
    return (None, ('DEFER', key, frozenset(fz.deps)))


def _bind(target, val, env):
    if isinstance(target, ast.Name):
        _invalidate(target.id, env)
    if isinstance(target, ast.Attribute):
        k = path_key(target)
        if k is not None:
            if val[0] is None and val[1] is None:
                env.pop(k, None)
            else:
                env[k] = val
        return
    if isinstance(target, ast.Name):
        if val[0] is None and val[1] is None:
            env.pop(target.id, None)
        else:
            env[target.id] = val
    elif isinstance(target, (ast.Tuple, ast.List)):
        elts = val[1]
        for i, t in enumerate(target.elts):
            if elts is not None and len(elts) == len(target.elts):
                _bind(t, elts[i], env)
            else:
                _bind(t, (None, None), env)
    elif isinstance(target, ast.Starred):
        _bind(target.value, (None, None), env)


def OBJECT_ITER(it):
    """iterations that range over model objects: <x>.GetSectors() / .SectorList / .CountryList / .CurrencyZoneList"""
    if isinstance(it, ast.Call) and isinstance(it.func, ast.Attribute) and it.func.attr in ('GetSectors',) and not it.args:
        return True
    return isinstance(it, ast.Attribute) and it.attr in ('SectorList', 'CountryList', 'CurrencyZoneList')


def truth_transfer(node, env, obj_iter=None):
    """environment after the normal completion of a CFG node"""
    env = dict(env)
    a = node.ast
    if node.kind == 'stmt':
        if isinstance(a, ast.Assign):
            val = truth_of(a.value, env)
            if val[0] is None and val[1] is None and len(a.targets) == 1 and isinstance(a.targets[0], ast.Name):
                d = _deferred(a.value, env, a.targets[0].id)
                if d is not None:
                    _invalidate(a.targets[0].id, env)
                    env[a.targets[0].id] = d
                    return env
            for t in a.targets:
                _bind(t, val, env)
        elif isinstance(a, ast.AnnAssign) and a.value is not None:
            _bind(a.target, truth_of(a.value, env), env)
        elif isinstance(a, ast.AugAssign):
            if isinstance(a.target, ast.Name):
                oldv = env.get(a.target.id, (None, None))
                old = oldv[0]
                new = truth_of(a.value, env)[0]
                if isinstance(a.op, ast.BitOr) and (old is True or new is True):
                    env[a.target.id] = (True, None)
                elif isinstance(a.op, ast.Add) and isinstance(oldv[1], tuple) and oldv[1][0] == 'INT' and \
                        isinstance(a.value, ast.Constant) and a.value.value == 1:
                    env[a.target.id] = (True, ('INT', min(2, oldv[1][1] + 1)))
                else:
                    env.pop(a.target.id, None)
        elif isinstance(a, ast.Expr) and isinstance(a.value, ast.Call) and isinstance(a.value.func, ast.Attribute) and \
                isinstance(a.value.func.value, ast.Name) and a.value.func.attr in ('append', 'add', 'insert'):
            oldm = env.get(a.value.func.value.id, (None, None))[1]
            if a.value.func.attr == 'append' and isinstance(oldm, tuple) and oldm and oldm[0] == 'LEN':
                env[a.value.func.value.id] = (True, ('LEN', min(2, oldm[1] + 1)))
            else:
                env[a.value.func.value.id] = (True, None)       # a container that received an element is non-empty
        elif isinstance(a, ast.Expr) and isinstance(a.value, ast.Call) and isinstance(a.value.func, ast.Attribute) and \
                isinstance(a.value.func.value, ast.Name) and a.value.func.attr in ('pop', 'remove', 'clear', 'extend', 'update', 'discard'):
            env.pop(a.value.func.value.id, None)
        elif isinstance(a, (ast.Import, ast.ImportFrom, ast.Delete)):
            for n in ast.walk(a):
                if isinstance(n, ast.Name):
                    env.pop(n.id, None)
    elif node.kind == 'for':
        objs = isinstance(a.target, ast.Name) and (obj_iter or OBJECT_ITER)(a.iter)
        for n in ast.walk(a.target):
            if isinstance(n, ast.Name):
                env.pop(n.id, None)
                _invalidate(n.id, env)
                if objs:
                    env[n.id] = (None, 'OBJ')       # an object of the model (never None); truthiness unknown
    elif node.kind == 'except':
        h = node.ast
        if getattr(h, 'name', None):
            env.pop(h.name, None)
    elif node.kind == 'with':
        for it in a.items:
            if it.optional_vars is not None:
                for n in ast.walk(it.optional_vars):
                    if isinstance(n, ast.Name):
                        env.pop(n.id, None)
    return env


def truth_search(g, starts, targets, stop_edge=None, env0=None, limit=200000, extra0=None, step=None, obj_iter=None):
    """target node ids reachable from `starts` on paths that are feasible under truthiness propagation.
    stop_edge(a, b, label) -> True cuts the edge.  An optional hashable `extra` component of the state is advanced by
    step(extra, node, label, env_before) on every edge taken.  Returns (hits, seen): hits = {target id: state key},
    seen = {state key: predecessor key}; a state key is (node id, frozen env, extra)."""
    from collections import deque
    tset = {t.id if hasattr(t, 'id') else t for t in targets}
    seen = {}
    work = deque()
    live = _live_names(g)
    for s in starts:
        sid = s.id if hasattr(s, 'id') else s
        key = (sid, frozenset((env0 or {}).items()), extra0)
        seen[key] = None
        work.append(key)
    hits = {}
    steps = 0
    while work:
        key = work.popleft()
        nid, fenv, extra = key
        env = dict(fenv)
        node = g.nodes[nid]
        steps += 1
        if steps > limit:
            raise RuntimeError('truth_search: state limit exceeded')
        if nid in tset and nid not in hits:
            hits[nid] = key
        after = None
        tv = None
        if node.kind == 'test':
            tv = truth_of(node.ast, env)[0]
        for b, lab in g.succ[nid]:
            if stop_edge is not None and stop_edge(nid, b, lab):
                continue
            if lab in ('exc', 'raise'):
                nenv = env            # the statement did not complete
            else:
                if node.kind == 'test' and tv is not None and lab in (True, False) and lab != tv:
                    continue
                if after is None:
                    after = truth_transfer(node, env, obj_iter)
                nenv = after
                if node.kind == 'test' and lab in (True, False):
                    nenv = _refine(node.ast, lab, nenv)
            nextra = step(extra, node, lab, env, g.nodes[b]) if step is not None else extra
            # what is known about a name that is never read again cannot influence any later decision: forget it
            lb = live.get(b)
            if lb is not None:
                nenv = {k_: v_ for k_, v_ in nenv.items() if not isinstance(k_, str) or '.' in k_ or k_.startswith('*') or k_ in lb}
            k2 = (b, frozenset(nenv.items()), nextra)
            if k2 not in seen:
                seen[k2] = key
                work.append(k2)
    return hits, seen


def _live_names(g):
    """node id -> names that may be read on some path from the node before being re-bound (backward may-liveness);
    None for a graph whose nodes cannot be read reliably"""
    cache = getattr(g, '_live_cache', None)
    if cache is not None:
        return cache
    use, dfn = {}, {}
    for n in g.nodes:
        a = n.ast
        u, d = set(), set()
        if a is not None:
            if n.kind == 'for' and isinstance(a, ast.For):
                u = {x.id for x in ast.walk(a.iter) if isinstance(x, ast.Name)}
                d = {x.id for x in ast.walk(a.target) if isinstance(x, ast.Name)}
                u |= {x.id for x in ast.walk(a.target) if isinstance(x, ast.Name) and isinstance(x.ctx, ast.Load)}
            else:
                for x in ast.walk(a):
                    if isinstance(x, ast.Name):
                        if isinstance(x.ctx, ast.Load):
                            u.add(x.id)
                        else:
                            d.add(x.id)
                # x.append(..) / x[k] = .. read x; an augmented assignment reads its target
                if isinstance(a, ast.AugAssign):
                    u |= {x.id for x in ast.walk(a.target) if isinstance(x, ast.Name)}
                    d = set()
                if n.kind not in ('stmt',):
                    d = set()           # only plain statements kill
                elif not isinstance(a, (ast.Assign, ast.AnnAssign)):
                    d = set()
                else:
                    # a name stored inside a subscript / attribute target is read, not bound
                    plain = set()
                    for t in (a.targets if isinstance(a, ast.Assign) else [a.target]):
                        for x in ast.walk(t):
                            if isinstance(x, ast.Name) and isinstance(x.ctx, ast.Store):
                                plain.add(x.id)
                    d = plain - u
        use[n.id], dfn[n.id] = u, d
    live_in = {n.id: set(use[n.id]) for n in g.nodes}
    changed = True
    while changed:
        changed = False
        for n in reversed(g.nodes):
            out = set()
            for b, _ in g.succ[n.id]:
                out |= live_in[b]
            new = use[n.id] | (out - dfn[n.id])
            if new != live_in[n.id]:
                live_in[n.id] = new
                changed = True
    try:
        g._live_cache = live_in
    except Exception:
        pass
    return live_in


def _refine(test, label, env):
    """learn from taking a branch: `if x:` / `if not x:` / `if len(x) > 0` over a plain name"""
    env = dict(env)
    t = test
    want = label
    while isinstance(t, ast.UnaryOp) and isinstance(t.op, ast.Not):
        t = t.operand
        want = not want
    if isinstance(t, ast.BoolOp):
        # `A and B` false with all but one conjunct known true  =>  that conjunct is false (dually for `or`)
        neutral = isinstance(t.op, ast.And)
        if want is not neutral:
            unknown = [v for v in t.values if truth_of(v, env)[0] is None]
            others = [v for v in t.values if truth_of(v, env)[0] is not None]
            if len(unknown) == 1 and all(truth_of(v, env)[0] is neutral for v in others):
                return _refine(unknown[0], want, env)
        else:
            for v in t.values:
                env = _refine(v, want, env)
        return env
    if isinstance(t, ast.Name):
        old = env.get(t.id, (None, None))
        if truth_of(t, env)[0] is None:
            mark = old[1] if not (isinstance(old[1], tuple) and old[1] and old[1][0] == 'DEFER') else None
            if isinstance(old[1], tuple) and old[1] and old[1][0] == 'DEFER':
                # the branch also tells something about the operands of the deferred expression
                env[t.id] = (want, None)
                return _refine(_DEFERRED[old[1][1]], want, env)
            env[t.id] = (want, mark)
    elif isinstance(t, ast.Compare) and len(t.ops) == 1 and isinstance(t.left, ast.Call) and \
            isinstance(t.left.func, ast.Name) and t.left.func.id == 'len' and len(t.left.args) == 1 and \
            isinstance(t.left.args[0], ast.Name) and isinstance(t.comparators[0], ast.Constant) and \
            t.comparators[0].value == 0 and isinstance(t.ops[0], (ast.Gt, ast.NotEq, ast.Eq)):
        nm = t.left.args[0].id
        nonempty = want if not isinstance(t.ops[0], ast.Eq) else (not want)
        old = env.get(nm, (None, None))
        if old[0] is None:
            env[nm] = (nonempty, old[1])
    return env


def trace(seen, key, g, maxlen=40):
    out = []
    while key is not None and len(out) < 400:
        out.append(key[0])
        key = seen.get(key)
    out.reverse()
    lines = []
    for nid in out:
        n = g.nodes[nid]
        if n.stmt is not None:
            lines.append(n.line)
    # compress consecutive duplicates
    comp = []
    for l in lines:
        if not comp or comp[-1] != l:
            comp.append(l)
    if len(comp) > maxlen:
        comp = comp[:maxlen // 2] + ['...'] + comp[-maxlen // 2:]
    return comp


def resolve_expr(expr, subst, depth=6):
    """copy of `expr` with once-assigned local names replaced by their defining expressions (recursively)"""
    from .loader import clone

    class R(ast.NodeTransformer):
        def __init__(self, d):
            self.d = d

        def visit_Name(self, node):
            if isinstance(node.ctx, ast.Load) and node.id in subst and self.d > 0:
                new = clone(subst[node.id])
                return R(self.d - 1).visit(new)
            return node
    return R(depth).visit(clone(expr))
