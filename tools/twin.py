"""Development helper: make a *correct twin* of a stored breaking change - apply the seed patch to a scratch worktree of
/repo, apply an exact-text repair (old -> new in one file), check that the seed's demo now passes and the suite is unchanged,
and store the result as refactors/T-<seed>/ (patch.diff, meta.json).
usage: twin.py <seed> <file> <old-text-file> <new-text-file>   (texts read from files to keep quoting out of the shell)"""
import json, os, shutil, subprocess, sys, tempfile
seed, rel, oldf, newf = sys.argv[1:5]
old, new = open(oldf).read(), open(newf).read()
wt = tempfile.mkdtemp(prefix='sfcv_twin_')
os.rmdir(wt)
try:
    subprocess.run(['git', '-C', '/repo', 'worktree', 'add', '--detach', wt, 'HEAD'], check=True, capture_output=True)
    subprocess.run(['git', 'apply', '/verif/seeded/%s/patch.diff' % seed], cwd=wt, check=True)
    p = os.path.join(wt, rel)
    s = open(p).read()
    if s.count(old) != 1:
        print('old text occurs %d times' % s.count(old)); sys.exit(2)
    open(p, 'w').write(s.replace(old, new))
    env = dict(os.environ, PYTHONPATH=wt)
    d = subprocess.run(['/venv/bin/python', '/verif/seeded/%s/demo.py' % seed], cwd=wt, env=env, capture_output=True, text=True)
    print('demo rc', d.returncode, (d.stdout + d.stderr)[-300:])
    t = subprocess.run(['/venv/bin/python', '-m', 'pytest', '-ra', '-q', '-p', 'no:cacheprovider', '--timeout=900',
                        '--continue-on-collection-errors'], cwd=wt, env=env, capture_output=True, text=True)
    tail = t.stdout.strip().splitlines()[-1] if t.stdout.strip() else ''
    print('tests:', tail)
    diff = subprocess.run(['git', 'diff', '--', 'sfc_models'], cwd=wt, capture_output=True, text=True).stdout
    ok = d.returncode == 0 and '221 passed' in tail and '1 failed' in tail
    if ok:
        out = '/verif/refactors/T-%s' % seed
        os.makedirs(out, exist_ok=True)
        open(out + '/patch.diff', 'w').write(diff)
        json.dump({'refactor': 'T-%s' % seed, 'origin': 'hand-made correct twin of seeded/%s: the same restructuring with the defect repaired; '
                   'the seed\'s own demonstration passes on it' % seed, 'ran': ['demo of the seed -> rc 0', 'pytest -> ' + tail],
                   'files': [rel], 'tests_unchanged': True, 'non_silent_checks': {}}, open(out + '/meta.json', 'w'), indent=1)
        print('stored', out)
    else:
        print('NOT stored')
finally:
    subprocess.run(['git', '-C', '/repo', 'worktree', 'remove', '--force', wt], capture_output=True)
    shutil.rmtree(wt, ignore_errors=True)
