"""C18 - codes are labels: renaming and embedding leave an economy unchanged (decided structural clauses).

R1 parameters are used    : every constructor parameter of an EconomicObject subclass is used, and a parameter that the
                            base constructor also has is forwarded to it (not silently replaced by the base default).
R2 no literal default names: where the constructor chain has a name parameter with default D, no variable name or
                            equation template of that class spells DEM_D / SUP_D literally.
R3 zone scoping           : counterparty discovery in sector code ranges only over the sector's own country / currency
                            zone (or collections handed to it), never a model-wide sector list.
R4 country prefix         : full codes gain the country prefix iff the model has more than one country (single writer).
R5 builders               : the book-model builders embed no literal full variable names (they break under the
                            documented country-code prefix when the economy is embedded in a multi-country model)."""
import ast
import re

from ..loader import AnalysisError, unparse, call_name
from .. import effects
from ..dataflow import linform, lin_eq
from ..strdom import Str, Hole, SELF, Role, Coll

TECHNIQUE = ('static analysis: parameter-flow through constructor chains (use and forwarding), literal-vs-parameter name lint over the extracted equation templates, scope of discovery collections in the effect traces, branch-outcome facts and must-pass-through for the full-code rule; comparison-operator lint on currency codes; constructor fallback of the builders\' own economy')
EXPLANATION = (
    'A renaming can only be label-neutral if every name the constructors accept actually reaches the variable names and '
    'templates built from it. The constructor chains are interpreted abstractly: each name parameter must be used and '
    'forwarded; no template may spell a default name literally where a parameter exists; discovery loops and lookups must be '
    'scoped to the own country / currency zone; the full-code prefix rule has one writer and the documented condition; the '
    'book builders must not hard-code full variable names. Equality of renamed / embedded runs is not inspected.')


def str_default(node):
    return node.value if isinstance(node, ast.Constant) and isinstance(node.value, str) else None


def check_full_codes(prog, check, rule='C18.R4'):
    """the full code of every sector is (re)computed by one function: country prefix iff the model has several
    countries, for every sector on every call (a code kept from an earlier call is stale once a country is added)"""
    # ---- R4 ----------------------------------------------------------------------------------------
    writers = []
    for f in prog.all_functions():
        for n in ast.walk(f.node):
            if isinstance(n, ast.Assign) and isinstance(n.targets[0], ast.Attribute) and n.targets[0].attr == 'FullCode':
                if isinstance(n.value, ast.Constant) and n.value.value == '':
                    continue
                writers.append((f, n))
    fs = {f.key for f, n in writers}
    check.ob(rule, 'full-code::single-writer', len(fs) == 1, writers[0][0].where if writers else 'sfc_models/models.py',
             'FullCode is assigned in one function (%s)' % sorted(fs) if len(fs) == 1 else 'FullCode is assigned in %s' % sorted(fs),
             'embedding an economy: every sector must follow the same prefix rule')
    if len(fs) == 1:
        from ..inline import flatten
        check.saw(writers[0][0])
        f = flatten(prog, writers[0][0])
        writers = [(f, n) for n in ast.walk(f.node) if isinstance(n, ast.Assign) and isinstance(n.targets[0], ast.Attribute) and
                   n.targets[0].attr == 'FullCode' and not (isinstance(n.value, ast.Constant) and n.value.value == '')]
        from ..dataflow import single_assign_subst
        sub = single_assign_subst(f.node)
        prefixed = [n for ff, n in writers if isinstance(n.value, ast.BinOp)]
        plain = [n for ff, n in writers if not isinstance(n.value, ast.BinOp)]
        from .. import cfg as cfgmod_
        from ..cfg import atomic_facts
        from ..dataflow import resolve_expr
        gfc = cfgmod_.build(f)

        def several_countries(node_ast):
            """True / False when reaching the store implies `more than one country` / `at most one`, None otherwise"""
            res = None
            for test, outcome in gfc.conditions_at(gfc.node_of(node_ast)):
                for _, v, e in atomic_facts(test, outcome):
                    e = resolve_expr(e, sub)
                    if isinstance(e, ast.Compare) and len(e.ops) == 1:
                        l, r = linform(e.left, sub), linform(e.comparators[0], sub)
                        if l is None or r is None:
                            continue
                        ln = [k for k in l if k.startswith('len(') and 'CountryList' in k]
                        if ln and not (set(r) - {''}) and not (set(l) - {ln[0], ''}) and l[ln[0]] == 1 and not l.get('', 0):
                            c = r.get('', 0)
                            op = e.ops[0]
                            if (isinstance(op, ast.Gt) and c == 1) or (isinstance(op, ast.GtE) and c == 2) or (isinstance(op, ast.NotEq) and False):
                                res = v
                            elif (isinstance(op, ast.LtE) and c == 1) or (isinstance(op, ast.Lt) and c == 2):
                                res = not v
            return res
        ok = bool(prefixed) and bool(plain)
        shape = all(re.match(r"^(\w+)\.Code\+'_'\+(\w+)\.Code$", unparse(pn.value).replace(' ', '')) is not None for pn in prefixed)
        cond_ok = all(several_countries(pn) is True for pn in prefixed) and all(several_countries(pl) is False for pl in plain)
        plain_ok = all(unparse(pl.value).endswith('.Code') and isinstance(pl.value, ast.Attribute) for pl in plain)
        ok = ok and shape and cond_ok and plain_ok
        check.ob(rule, 'full-code::prefix-iff-several-countries', ok, f.where,
                 "FullCode = country.Code + '_' + sector.Code iff len(CountryList) > 1, else sector.Code" if ok else
                 'the prefix rule is not `country code prefix iff more than one country`', 'one-country vs two-country models')
    # ---- R5 ----------------------------------------------------------------------------------------
        # every sector is given its code on every call
        ok_every = False
        stores_ = [gfc.node_of(n_) for ff_, n_ in writers]
        inner = None
        for l_ in [x for x in ast.walk(f.node) if isinstance(x, ast.For)]:
            if any(n_ in list(ast.walk(l_)) for ff_, n_ in writers) and (inner is None or l_ in list(ast.walk(inner))):
                inner = l_
        if inner is not None:
            hdr_ = [h_ for h_ in gfc.nodes if h_.kind == 'for' and h_.stmt is inner][0]
            first_ = [b_ for b_, lab_ in gfc.succ[hdr_.id] if lab_ is True]
            ok_every = bool(first_) and all(gfc.nodes[b_] in stores_ or gfc.must_pass(b_, hdr_, stores_) for b_ in first_)
        check.ob(rule, 'full-code::assigned-for-every-sector', ok_every, f.where,
                 'every pass over a sector assigns its full code afresh' if ok_every else
                 'a sector can be skipped (its full code is left as it was): a code computed before the last country was added is stale',
                 'codes generated (LogInfo, GUI) while the model had one country, a second country added afterwards')


def run(prog, check):
    check.explanation = EXPLANATION
    check.not_decided = 'equality of the renamed / embedded / stand-alone solutions'
    check.assumptions = ['sector classes of the package are those deriving from EconomicObject']
    classes = [ci for ci in prog.subclasses('EconomicObject') if prog.is_core(ci.module.rel)]
    # ---- R1 ----------------------------------------------------------------------------------------
    for ci in classes:
        init = ci.methods.get('__init__')
        if init is None:
            continue
        check.saw(init)
        params = init.params()[1:]
        loads = {}
        for n in ast.walk(init.node):
            if isinstance(n, ast.Name) and isinstance(n.ctx, ast.Load):
                loads[n.id] = loads.get(n.id, 0) + 1
        # the explicit base-constructor call(s)
        base_calls = []
        for n in ast.walk(init.node):
            if isinstance(n, ast.Call) and call_name(n) == '__init__' and isinstance(n.func, ast.Attribute) and \
                    isinstance(n.func.value, ast.Name) and n.func.value.id in prog.classes:
                base_calls.append(n)
        for p in params:
            used = loads.get(p, 0) > 0
            check.ob('C18.R1', '%s::param-used(%s)' % (init.key, p), used, init.where,
                     'parameter is used' if used else 'constructor parameter `%s` is accepted but never used' % p,
                     'constructing the sector with %s different from the default' % p)
            for bc in base_calls:
                binit = prog.resolve_method(bc.func.value.id, '__init__')
                if binit is None:
                    continue
                bparams = binit.params()[1:]
                if p not in bparams or p not in binit.defaults() and False:
                    continue
                if p not in bparams:
                    continue
                # how is base parameter p bound at the call?
                args = bc.args[1:] if bc.args and isinstance(bc.args[0], ast.Name) and bc.args[0].id == 'self' else bc.args
                idx = bparams.index(p)
                bound = None
                if idx < len(args):
                    bound = args[idx]
                for k in bc.keywords:
                    if k.arg == p:
                        bound = k.value
                ok = bound is not None and any(isinstance(x, ast.Name) and x.id == p for x in ast.walk(bound))
                if not ok:
                    # accepted idiom: the constructor stores the parameter itself in the attribute the base would have set
                    battrs = {t.attr for n2 in ast.walk(binit.node) if isinstance(n2, ast.Assign) for t in n2.targets
                              if isinstance(t, ast.Attribute) and isinstance(n2.value, ast.Name) and n2.value.id == p}
                    own = {t.attr for n2 in ast.walk(init.node) if isinstance(n2, ast.Assign) for t in n2.targets
                           if isinstance(t, ast.Attribute) and isinstance(t.value, ast.Name) and t.value.id == 'self'
                           and isinstance(n2.value, ast.Name) and n2.value.id == p}
                    if battrs and battrs <= own:
                        ok = True
                check.ob('C18.R1', '%s::param-forwarded(%s -> %s)' % (init.key, p, binit.qualname), ok, '%s:%d' % (init.module.rel, bc.lineno),
                         'forwarded to the base constructor' if ok else
                         'the base constructor also takes `%s` but receives %s: the value given to this constructor is ignored' % (
                             p, unparse(bound) if bound is not None else 'its own default'),
                         'a %s with %s different from the default' % (ci.name, p))
    # ---- R2 / R3 -------------------------------------------------------------------------------------
    sector_classes = [ci for ci in prog.subclasses('Sector') if prog.is_core(ci.module.rel)]
    seen2 = set()
    n3 = 0
    for ci in sector_classes:
        # string defaults along the constructor chain
        defaults = {}
        for c in ci.mro:
            init = c.methods.get('__init__')
            if init is None:
                continue
            for p, d in init.defaults().items():
                sd = str_default(d)
                if sd and re.match(r'^[A-Z][A-Z0-9_]*$', sd) and ('name' in p or 'code' in p or 'paid_to' in p):
                    defaults.setdefault(sd, set()).add(p)
        it = effects.run_unit(prog, ci)
        m = prog.resolve_method(ci, '_GenerateEquations')
        for e in it.effects:
            strs = [x for x in (e.name, e.rhs, e.term) if isinstance(x, Str)]
            for s in strs:
                for part in all_literals(s):
                    for D, ps in defaults.items():
                        for mm in re.finditer(r'\b(DEM|SUP|LAG_DEM|LAG_SUP)_%s\b' % re.escape(D), part):
                            fn = e.via[-1] if e.via else ci.name
                            key = '%s::%s::literal-name(%s)' % (e.where.split(':')[0], fn, mm.group(0))
                            if key in seen2:
                                continue
                            seen2.add(key)
                            check.ob('C18.R2', key, False, e.where,
                                     'the template spells %s literally although the constructor takes %s (default %r)' % (mm.group(0), sorted(ps), D),
                                     'a %s created with %s other than %r' % (ci.name, sorted(ps)[0], D))
        if defaults:
            check.ob('C18.R2', '%s::%s::templates-use-name-parameters(%s)' % (ci.module.rel, ci.name, ','.join(sorted(defaults))),
                     not any(k.split('::')[1].split('.')[0] in [c.name for c in ci.mro] for k in seen2 if k.startswith(ci.module.rel) and ('::' + ci.name + '.') in k),
                     ci.module.rel + ':%d' % ci.node.lineno,
                     'no variable name or template spells a default name literally', 'renaming the good / labour market')
        # R3: discovery scope
        for e in it.effects:
            if e.phase != 'gen':
                continue
            for ck, coll in e.loops:
                key = '%s::%s.G::discovery(%s)' % (ci.module.rel, ci.name, ck)
                if key in seen2:
                    continue
                seen2.add(key)
                ok = scoped(coll)
                n3 += 1
                check.ob('C18.R3', key, ok, e.where,
                         'discovery ranges over the own country / zone or a collection handed to the sector' if ok else
                         'counterparty discovery ranges over %s: sectors of other currency zones are taxed / counted / supplied' % ck,
                         'two economies with different currencies in one model')
            for r in roles_in(e):
                if r.kind == 'loop' and r.args and isinstance(r.args[0], str) and r.args[0] not in {ck_ for ck_, _ in e.loops}:
                    # an element picked by a search loop elsewhere (a helper that returns the sector found)
                    key = '%s::%s.G::discovery(%s)' % (ci.module.rel, ci.name, r.args[0])
                    if key not in seen2:
                        seen2.add(key)
                        txt = r.args[0]
                        ok = txt in ('zone_sectors(Self)', 'country_sectors(Self)') or txt.split('(')[0] in ('field', 'param', 'dict_items', 'elem', 'folded', 'exclusions')
                        n3 += 1
                        check.ob('C18.R3', key, ok, e.where,
                                 'the sector found comes from the own country / zone' if ok else
                                 'a counterparty is searched for in %s: a sector of another currency zone can be picked' % txt,
                                 'two economies with different currencies in one model')
                if r.kind == 'lookup':
                    key = '%s::%s.G::lookup(%s)' % (ci.module.rel, ci.name, r.args[0])
                    if key in seen2:
                        continue
                    seen2.add(key)
                    ok = r.args[0] in ('zone', 'country') and r.args[1] == SELF
                    n3 += 1
                    check.ob('C18.R3', key, ok, e.where,
                             'lookup by code within the own %s' % r.args[0] if ok else 'lookup by code in scope `%s`' % r.args[0],
                             'another economy in the model with the same sector code')
    # ---- R4 ----------------------------------------------------------------------------------------
    check_full_codes(prog, check)
    n5 = 0
    for rel, m in sorted(prog.modules.items()):
        if '/gl_book/' not in rel.replace('\\', '/'):
            continue
        for ci in [c for c in prog.classes.values() if c.module is m]:
            bm = ci.methods.get('build_model')
            others = [f for nme, f in ci.methods.items() if nme.startswith('build') or nme.startswith('generate')]
            for f in others:
                check.saw(f)
                for n in ast.walk(f.node):
                    if isinstance(n, ast.Call) and call_name(n) in ('AddVariable', 'SetEquationRightHandSide', 'AddGlobalEquation',
                                                                  'GenerateAssetWeighting', 'AddSupplier', 'SetExogenous'):
                        for a in list(n.args) + [k.value for k in n.keywords]:
                            for c in ast.walk(a):
                                if isinstance(c, ast.Constant) and isinstance(c.value, str):
                                    for mm in re.finditer(r'\b[A-Za-z][A-Za-z0-9]*(?:_[A-Za-z0-9]+)*__[A-Za-z][A-Za-z0-9_]*\b', c.value):
                                        n5 += 1
                                        check.ob('C18.R5', '%s::%s::literal-fullname(%s)' % (rel, f.qualname, mm.group(0)), False,
                                                 '%s:%d' % (rel, c.lineno),
                                                 'equation text names %s literally: under the country prefix of a multi-country model the variable is called <country>_%s' % (mm.group(0), mm.group(0)),
                                                 'embedding this economy next to another one (full codes gain the country prefix)')
    check.ob('C18.R5', 'gl_book::builders-scanned', True, 'sfc_models/gl_book', '%d literal full names found in builder equation text' % n5, '')
    check.floor('C18.R1', 40)
    check.floor('C18.R2', 6)
    # registered cash flows are deferred, never filtered: the registering method records every call
    from ._common import registration_always_recorded
    for rf_, ok_, why_ in registration_always_recorded(prog, 'RegisteredCashFlows', 3):
        check.saw(rf_)
        check.ob('C18.R3', '%s::flow-registration-always-recorded' % rf_.key, ok_, rf_.where, why_, 'two economies with the same sector codes, each registering the same flow')
    # a Region without a currency joins the zone of the country declared just before it, whatever else the model holds:
    # the default currency is re-set by every country that is added
    from ..inline import flatten as _fl
    from .. import cfg as _cfg
    writers_ = []
    for f_ in prog.all_functions():
        if f_.name == '__init__' or '/deprecated/' in f_.module.rel:
            continue
        for n_ in ast.walk(f_.node):
            if isinstance(n_, ast.Assign) and any(isinstance(t_, ast.Attribute) and t_.attr == 'DefaultCurrency' for t_ in n_.targets):
                writers_.append(f_)
    writers_ = list({f_.key: f_ for f_ in writers_}.values())
    readers_ = any(isinstance(n_, ast.Attribute) and n_.attr == 'DefaultCurrency' and isinstance(n_.ctx, ast.Load)
                   for f_ in prog.all_functions() for n_ in ast.walk(f_.node))
    if readers_:
        if len(writers_) != 1:
            raise AnalysisError('expected one function setting the default currency, found %s' % [f_.qualname for f_ in writers_])
        wf_raw = writers_[0]
        wf = _fl(prog, wf_raw)
        gw = _cfg.build(wf)
        stores_ = [nd for nd in gw.stmt_nodes() if nd.kind == 'stmt' and isinstance(nd.ast, ast.Assign) and any(
            isinstance(t_, ast.Attribute) and t_.attr == 'DefaultCurrency' for t_ in nd.ast.targets)]
        params_ = wf.params()[1:]
        val_ok = all(isinstance(nd.ast.value, ast.Attribute) and nd.ast.value.attr == 'Currency' and isinstance(nd.ast.value.value, ast.Name)
                     and nd.ast.value.value.id in params_ for nd in stores_)
        always_ = bool(stores_) and gw.must_pass(gw.entry, gw.exit, stores_)
        check.saw(wf_raw)
        check.ob('C18.R3', '%s::default-currency-follows-last-country' % wf_raw.key, always_ and val_ok, wf_raw.where,
                 'every country added makes its currency the default for the regions declared after it' if (always_ and val_ok) else
                 ('a country can be added without becoming the source of the default currency: a region declared after it joins the zone of an '
                  'earlier economy of the model' if not always_ else 'the default currency is not the currency of the country being added'),
                 'two federations (country + region without explicit currency) with different currencies in one model')
    # an income exclusion registered for a sector of one economy does not reach an equally coded sector of another
    from ._common import exclusion_scope
    xf_, xok_, xwhy_ = exclusion_scope(prog)
    check.saw(xf_)
    check.ob('C18.R3', '%s::income-exclusion-is-per-sector-object' % xf_.key, xok_, xf_.where, xwhy_,
             "two economies in one model, the household of one coded like the government of the other")
    # the identity of a currency is equality of the code: a containment test on a currency string (`a in zone.Currency`) puts 'KR'
    # into the zone of 'KRW'; an ordering comparison depends on the spelling
    n_cur = 0
    for f_ in prog.all_functions():
        for n_ in ast.walk(f_.node):
            if not (isinstance(n_, ast.Compare) and len(n_.ops) == 1):
                continue
            l_, r_, op_ = n_.left, n_.comparators[0], n_.ops[0]
            is_cur = [isinstance(x_, ast.Attribute) and x_.attr == 'Currency' for x_ in (l_, r_)]
            if not any(is_cur):
                continue
            if isinstance(op_, (ast.Eq, ast.NotEq, ast.Is, ast.IsNot)):
                okc = True
            elif isinstance(op_, (ast.In, ast.NotIn)):
                okc = not is_cur[1]          # membership in a collection of codes is fine; `in <a currency string>` is a substring test
            else:
                okc = False
            n_cur += 1
            check.saw(f_)
            check.ob('C18.R3', '%s::currency-identity-is-equality(%s)' % (f_.key, unparse(n_)), okc, '%s:%d' % (f_.module.rel, n_.lineno),
                     'currencies are compared for equality' if okc else
                     '`%s` is not an equality test between currency codes: an economy whose code is part of (or sorts before) another '
                     'economy\'s code is put into that economy\'s currency zone' % unparse(n_),
                     "two economies with currencies 'KRW' and 'KR' in one model")
    # a book builder's economy has a currency of its own: the object it creates must not fall back on the model's default currency
    for f_ in prog.all_functions():
        if '/gl_book/' not in f_.module.rel.replace('\\', '/'):
            continue
        # the economy a builder object stands for: what its constructor stores as self.Country (regions a federal model adds to that
        # economy on purpose share its currency and are not meant here)
        own_ = [a_.value for a_ in ast.walk(f_.node) if isinstance(a_, ast.Assign) and isinstance(a_.value, ast.Call) and any(
            isinstance(t_, ast.Attribute) and t_.attr == 'Country' and isinstance(t_.value, ast.Name) and t_.value.id == 'self' for t_ in a_.targets)]
        for c_ in own_:
            cn_ = call_name(c_)
            ci_ = prog.classes.get(cn_) if cn_ else None
            if ci_ is None or not any(b_.name == 'Country' for b_ in ci_.mro):
                continue
            passes_currency = any(k_.arg == 'currency' for k_ in c_.keywords) or len(c_.args) >= 4
            falls_back = False
            for b_ in ci_.mro:
                ini_ = b_.methods.get('__init__')
                if ini_ is not None and any(isinstance(x_, ast.Attribute) and x_.attr == 'DefaultCurrency' and isinstance(x_.ctx, ast.Load)
                                            for x_ in ast.walk(ini_.node)):
                    falls_back = True
                if ini_ is not None:
                    break
            okb = passes_currency or not falls_back
            check.saw(f_)
            check.ob('C18.R3', '%s::builder-economy-has-own-currency(%s)' % (f_.key, cn_), okb, '%s:%d' % (f_.module.rel, c_.lineno),
                     'the economy a builder creates carries its own currency' if okb else
                     'the builder creates a %s without a currency: it takes the default currency of the model it is embedded into, so two '
                     'embedded book economies share one currency zone (markets and taxes then reach across them)' % cn_,
                     "SIM('AA') and SIM('BB') built into one Model")
    check.floor('C18.R3', 8)
    check.floor('C18.R4', 2)
    check.floor('C18.R5', 1)


def all_literals(s):
    for p in s.parts:
        if isinstance(p, str):
            yield p
        else:
            for a in p.args:
                if isinstance(a, Str):
                    for x in all_literals(a):
                        yield x


def scoped(coll):
    if coll.kind in ('zone_sectors', 'country_sectors'):
        return bool(coll.args) and coll.args[0] == SELF
    if coll.kind in ('field', 'param', 'dict_items', 'elem', 'folded', 'exclusions'):
        return True
    return False


def roles_in(e):
    out = []

    def walk(v):
        if isinstance(v, Role):
            out.append(v)
            for a in v.args:
                walk(a)
        elif isinstance(v, Str):
            for h in v.holes():
                for a in h.args:
                    walk(a)
        elif isinstance(v, Hole):
            for a in v.args:
                walk(a)
    for v in (e.role, e.name, e.rhs, e.term):
        if v is not None:
            walk(v)
    for g in e.guards:
        for a in g.cond.args:
            walk(a)
    return out
