"""sfcv command line:  python -m sfcv check <Cxx> [--tier quick|thorough] [--root DIR]
                       python -m sfcv replay <file>
                       python -m sfcv all [--tier ...] [--root DIR] [-j N]"""
import argparse
import importlib
import json
import os
import sys
import traceback

from . import report
from .loader import Program, AnalysisError

ALL = ['C%02d' % i for i in range(1, 21)]


def run_check(pid, tier, root, seed=0):
    try:
        mod = importlib.import_module('sfcv.rules.' + pid)
    except ImportError as e:
        print('ANALYSIS-ERROR property=%s no rule module (%s)' % (pid, e))
        return 2
    check = report.Check(pid, tier, root)
    try:
        prog = Program(root, with_examples=(tier == 'thorough' and getattr(mod, 'WANTS_EXAMPLES', False)))
        mod.run(prog, check)
        cmd = '/venv/bin/python -m sfcv check %s --tier %s' % (pid, tier)
        return report.finish(check, seed, cmd)
    except AnalysisError as e:
        report.emit('ANALYSIS-ERROR property=%s %s' % (pid, e))
        return 2
    except BrokenPipeError:
        return 2
    except Exception:
        report.emit('ANALYSIS-ERROR property=%s internal error in the analyser:\n%s' % (pid, traceback.format_exc()))
        return 2


def replay(path):
    with open(path) as f:
        data = json.load(f)
    pid = data['property']
    root = data.get('root', '/repo')
    print('replaying %s on %s (tier %s); previously refuted:' % (pid, root, data.get('tier')))
    for o in data.get('refuted', []):
        print('  %s %s %s -- %s' % (o.get('where'), o.get('rule'), o.get('construct'), o.get('why', '')))
    return run_check(pid, data.get('tier', 'quick'), root)


def main(argv=None):
    ap = argparse.ArgumentParser(prog='sfcv')
    sub = ap.add_subparsers(dest='cmd')
    c = sub.add_parser('check')
    c.add_argument('pid')
    c.add_argument('--tier', default=os.environ.get('VERIF_TIER', 'quick'), choices=['quick', 'thorough'])
    c.add_argument('--root', default='/repo')
    r = sub.add_parser('replay')
    r.add_argument('path')
    a = sub.add_parser('all')
    a.add_argument('--tier', default='quick', choices=['quick', 'thorough'])
    a.add_argument('--root', default='/repo')
    args = ap.parse_args(argv)
    seed = int(os.environ.get('VERIF_SEED', '0') or 0)
    if args.cmd == 'check':
        return run_check(args.pid, args.tier, args.root, seed)
    if args.cmd == 'replay':
        return replay(args.path)
    if args.cmd == 'all':
        worst = 0
        for pid in ALL:
            if not os.path.exists(os.path.join(os.path.dirname(__file__), 'rules', pid + '.py')):
                continue
            print('==== ' + pid)
            worst = max(worst, run_check(pid, args.tier, args.root, seed))
        return worst
    ap.print_help()
    return 2
