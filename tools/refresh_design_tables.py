"""Development helper: regenerate the two tables of DESIGN.md section 10 in place (between the html comment markers)."""
import subprocess
p = '/verif/DESIGN.md'
s = open(p).read()
out = subprocess.run(['/venv/bin/python', 'tools/gen_seed_table.py'], capture_output=True, text=True, cwd='/verif').stdout
i = out.index('| refactoring |')
for name, tab in (('seed', out[:i].rstrip() + '\n'), ('refactor', out[i:].rstrip() + '\n')):
    a = s.index('<!-- %s-table-begin -->' % name) + len('<!-- %s-table-begin -->\n' % name)
    b = s.index('<!-- %s-table-end -->' % name)
    s = s[:a] + tab + s[b:]
open(p, 'w').write(s)
print(out[:i].rstrip().splitlines()[-1])
