from sfc_models.equation_solver import EquationSolver
import math
# C02: overflow divergence
s = EquationSolver("""
x = 1000*x + 1
exogenous
MaxTime=2""")
try:
    s.SolveEquation()
    print("returned normally", {k:v for k,v in s.TimeSeries.items()})
except Exception as e:
    print("raised", type(e), e)
