"""C06 - sector ledgers reflect exactly the cash flows recorded on them (decided structural clauses).

R1 one F entry per flow : every path of the cash-flow method past the empty-term return executes exactly one
                          F.AddTerm(t), t being the stripped argument.
R2 income iff flagged   : INC.AddTerm(t) executes iff the income flag survives; the flag is only lowered, and only
                          under  obj is this sector  and  excluded == sign-stripped name.
R3 define-if-empty      : the overwrite of an existing flow variable is control-dependent on "current RHS empty/zero";
                          the create branch on absence; both only when a definition was supplied.
R4 merge or append      : Equation.AddTerm does, on each non-raising path, exactly one of {add the coefficients of
                          textually equal terms, append}.
W  who may write        : the only writers of a sector's F / INC equations are the Sector constructor and the
                          cash-flow method."""
import ast

from .. import cfg as cfgmod
from ..loader import AnalysisError, unparse, call_name, const_str
from ..dataflow import target_names, single_assign_subst, resolve_expr
from ..cfg import atomic_facts
from ..inline import flatten

TECHNIQUE = ('static analysis: product search over CFG node x truthiness constants x (match seen, scan left early, F / INC entry counts) on the flattened cash-flow primitive; branch-outcome facts for define-if-empty; who-may-write scan of all F / INC writers with a positive control')
EXPLANATION = (
    'Validates the summary of the booking primitive that the ledger rules (C01, C04, C07) rely on: F receives the term exactly '
    'once on every path, INC receives it iff the income flag survives (lowered only by a matching exclusion of this sector), an '
    'existing flow variable is overwritten only when its current right-hand side is empty/zero, and no code outside the '
    'constructor and this method writes F / INC. Equation.AddTerm merges only textually equal terms or appends.')


def find_cashflow_method(prog):
    """role: the Sector-family method that calls .AddTerm on EquationBlock['F']"""
    out = []
    for f in prog.all_functions():
        if f.cls is None or not any(c.name == 'Sector' for c in f.cls.mro) or f.name == '__init__':
            continue
        if block_addterm_nodes(f.node, 'F'):
            out.append(f)
    if len(out) > 1:
        # a foreign writer of F is C06.W's business; the primitive is the one that also maintains INC on the base class
        pref = [f for f in out if block_addterm_nodes(f.node, 'INC') and f.cls.name == 'Sector']
        if len(pref) == 1:
            out = pref
    if len(out) != 1:
        raise AnalysisError('expected one cash-flow method (AddTerm on EquationBlock[\'F\']), found %s' % [f.qualname for f in out])
    return out[0]


def block_addterm_nodes(node, key):
    res = []
    for c in ast.walk(node):
        if isinstance(c, ast.Call) and call_name(c) == 'AddTerm' and isinstance(c.func.value, ast.Subscript) and \
                isinstance(c.func.value.value, ast.Attribute) and c.func.value.value.attr == 'EquationBlock' and \
                const_str(c.func.value.slice) == key:
            res.append(c)
    return res


def ledger_writers(tree_or_func, keys=('F', 'INC')):
    """syntactic writers of the F / INC equations: (kind, key, node)"""
    out = []
    for c in ast.walk(tree_or_func):
        if isinstance(c, ast.Call):
            nm = call_name(c)
            if nm == 'AddTerm' and isinstance(c.func.value, ast.Subscript) and const_str(c.func.value.slice) in keys and \
                    'EquationBlock' in unparse(c.func.value.value):
                out.append(('AddTerm', const_str(c.func.value.slice), c))
            elif nm in ('AddVariable', 'SetEquationRightHandSide', 'AddTermToEquation') and c.args and const_str(c.args[0]) in keys:
                out.append((nm, const_str(c.args[0]), c))
            elif nm == 'AddVariableFromEquation' and c.args:
                out.append((nm, '?', c))
        if isinstance(c, (ast.Assign, ast.AugAssign)):
            ts = c.targets if isinstance(c, ast.Assign) else [c.target]
            for t in ts:
                b = t
                while isinstance(b, (ast.Attribute,)) and not (isinstance(b.value, ast.Subscript)):
                    b = b.value
                if isinstance(b, ast.Attribute) and isinstance(b.value, ast.Subscript) and const_str(b.value.slice) in keys and \
                        'EquationBlock' in unparse(b.value.value):
                    out.append(('store ' + b.attr, const_str(b.value.slice), c))
                if isinstance(t, ast.Subscript) and const_str(t.slice) in keys and ('EquationBlock' in unparse(t.value) or
                                                                                   unparse(t.value).endswith('.Equations')):
                    out.append(('block store', const_str(t.slice), c))
    return out


def who_may_write(prog, check, rule, cash):
    n = 0
    # private helpers of the primitive (same class, reached from it) belong to it
    family = set()
    work = [cash]
    while work:
        f_ = work.pop()
        for c in ast.walk(f_.node):
            if isinstance(c, ast.Call) and isinstance(c.func, ast.Attribute) and isinstance(c.func.value, ast.Name) and \
                    c.func.value.id == 'self' and c.func.attr.startswith('_') and not c.func.attr.startswith('__'):
                h = prog.resolve_method(cash.cls, c.func.attr)
                if h is not None and h.cls is cash.cls and h.key not in family and h is not cash:
                    family.add(h.key)
                    work.append(h)
    for f in prog.all_functions():
        ws = [w for w in ledger_writers(f.node) if w[0] != 'AddVariableFromEquation']
        for kind, key, node in ws:
            allowed = (f is cash) or f.key in family or (f.cls is not None and f.cls.name == 'Sector' and f.name == '__init__')
            n += 1
            check.ob(rule, '%s::writes(%s,%s)' % (f.key, key, kind), allowed, '%s:%d' % (f.module.rel, node.lineno),
                     'sanctioned writer' if allowed else 'the %s equation is written outside the constructor / cash-flow method' % key,
                     'any model: a flow written straight into F has no counter-entry and no income treatment')
    # Equation objects named F / INC created elsewhere
    for f in prog.all_functions():
        for c in ast.walk(f.node):
            if isinstance(c, ast.Call) and call_name(c) == 'Equation' and c.args and const_str(c.args[0]) in ('F', 'INC'):
                allowed = f.cls is not None and f.cls.name == 'Sector' and f.name == '__init__'
                n += 1
                check.ob(rule, '%s::creates-equation(%s)' % (f.key, const_str(c.args[0])), allowed, '%s:%d' % (f.module.rel, c.lineno),
                         'constructor creates the ledger equation' if allowed else 'a second definition of the ledger equation', '')
    ctrl = ast.parse("class X(Sector):\n    def _GenerateEquations(self):\n        self.EquationBlock['F'].AddTerm('+GIFT')\n")
    check.control('who-may-write control (foreign F writer is detected)', len(ledger_writers(ctrl)) == 1)
    return n


def run(prog, check):
    check.explanation = EXPLANATION
    check.not_decided = ('the value of the rendered equations over all registration histories (rests on C12); the string test for '
                         '"identically zero" (only the literal spellings \'\' and \'0.0\')')
    check.assumptions = ['terms passed to the cash-flow method are simple (the method raises otherwise)']
    cash_raw = find_cashflow_method(prog)
    check.saw(cash_raw)
    cash = flatten(prog, cash_raw)
    for k in getattr(cash, 'inlined', ()):
        check.analysed['functions'].add(k)
    g = cfgmod.build(cash)
    sub = single_assign_subst(cash.node)
    params = cash.params()
    term_p = params[1]
    # ---- R1 ----------------------------------------------------------------------------------------
    fadds = [n for n in g.stmt_nodes() if n.kind == 'stmt' and block_addterm_nodes(n.ast, 'F')]
    iadds = [n for n in g.stmt_nodes() if n.kind == 'stmt' and block_addterm_nodes(n.ast, 'INC')]
    # the empty-term early return: a return reached only under "the term is empty"
    def empty_term_fact(e, val):
        txt = unparse(resolve_expr(e, sub)).replace(' ', '')
        base = (term_p, term_p + '.strip()')
        if any(txt == 'len(%s)==0' % b_ for b_ in base) or any(txt == "%s==''" % b_ for b_ in base):
            return val is True
        if any(txt in ('len(%s)>0' % b_, 'len(%s)!=0' % b_, b_) for b_ in base):
            return val is False
        return False
    early = []
    for n in g.stmt_nodes():
        if n.kind == 'stmt' and isinstance(n.ast, ast.Return):
            if any(empty_term_fact(e, v) for test, outcome in g.conditions_at(n) for _, v, e in atomic_facts(test, outcome)):
                early.append(n)
    paths = g.paths(g.entry, g.exit, cap=20000)
    bad = 0
    for p in paths:
        if any(g.nodes[i] in early for i in p):
            continue
        cnt = sum(1 for i in p if g.nodes[i] in fadds)
        if cnt != 1:
            bad += 1
    check.ob('C06.R1', '%s::F-entry-exactly-once' % cash.key, bad == 0 and bool(fadds), cash.where,
             'on each of %d normal paths past the empty-term return F.AddTerm runs exactly once' % len(paths) if bad == 0 else
             '%d path(s) record the flow in F zero or several times' % bad, 'any non-empty flow')
    for n in fadds:
        c = block_addterm_nodes(n.ast, 'F')[0]
        arg = c.args[0] if c.args else None
        # reaching definitions of the argument at this node: only the parameter or its strip()
        ok = isinstance(arg, ast.Name) and arg.id == term_p
        if not ok and arg is not None:
            # a Term object built from the signed text (it carries sign and name; AddTerm copies it)
            v_ = resolve_expr(arg, {k_: e_ for k_, e_ in sub.items() if k_ != term_p})
            if isinstance(v_, ast.Call) and call_name(v_) == 'Term' and len(v_.args) >= 1 and not v_.keywords:
                a0_ = v_.args[0]
                if isinstance(a0_, ast.Call) and call_name(a0_) == 'strip' and not a0_.args:
                    a0_ = a0_.func.value
                if isinstance(a0_, ast.Name) and a0_.id == term_p:
                    arg = a0_
                    ok = True
        if ok:
            for a in g.stmt_nodes():
                if a.kind == 'stmt' and isinstance(a.ast, ast.Assign) and term_p in target_names(a.ast.targets[0]) and g.can_reach(a, n):
                    v = a.ast.value
                    if not (isinstance(v, ast.Call) and call_name(v) == 'strip' and unparse(v.func.value) == term_p):
                        ok = False
        check.ob('C06.R1', '%s::F-entry-is-the-signed-term' % cash.key, ok, '%s:%d' % (cash.module.rel, n.line),
                 'F receives the (stripped) signed term that was passed in' if ok else
                 'F receives something else than the signed term (e.g. the sign-stripped name)', "AddCashFlow('-T')")
    # ---- R2 ----------------------------------------------------------------------------------------
    # decided by a search over (node, truthiness constants, bookkeeping) states of the flattened method:
    #   M  a matching exclusion was seen   (both tests "exclusion is for this sector" and "excluded == sign-stripped
    #      name" held in one iteration of the scan over the model's income exclusions)
    #   E  the scan was left early without a match;   f / inc  number of F / INC entries made so far
    # at every normal exit that booked the flow:  inc == 1 iff (income flag passed in and not M), else inc == 0.
    flag = [p for p in params if 'income' in p.lower()]
    if len(flag) != 1:
        raise AnalysisError('income flag parameter not found')
    flag = flag[0]
    excl_loops = [l for l in ast.walk(cash.node) if isinstance(l, ast.For) and 'IncomeExclusions' in unparse(resolve_expr(l.iter, sub))]
    term_names = set()      # expressions denoting the sign-stripped name of the flow
    for n in ast.walk(cash.node):
        if isinstance(n, ast.Assign) and len(n.targets) == 1 and isinstance(n.targets[0], ast.Name) and \
                unparse(resolve_expr(n.value, sub)).endswith('.Term') and n.targets[0].id != term_p:
            term_names.add(n.targets[0].id)

    def match_facts(test, label, loop):
        lv = target_names(loop.target)
        obj = name = False
        for txt, val, e in atomic_facts(test, label):
            if not (val is True and isinstance(e, ast.Compare) and len(e.ops) == 1 and isinstance(e.ops[0], (ast.Eq, ast.Is))):
                continue
            l_, r_ = unparse(e.left), unparse(e.comparators[0])
            pair = {l_, r_}
            if lv and pair in ({'%s.ID' % lv[0], 'self.ID'}, {lv[0], 'self'}):
                obj = True
            if len(lv) > 1 and lv[1] in pair and any(x.endswith('.Term') or x in term_names for x in pair - {lv[1]}):
                name = True
        return obj, name
    loop_ids = {id(l): l for l in excl_loops}
    # an exclusion belongs to one sector object: the scan compares the recorded object with self by identity (or ID)
    for l in excl_loops:
        lv_ = target_names(l.target)
        ident_, other_ = False, []
        for t_ in [x for x in ast.walk(l) if isinstance(x, ast.Compare) and len(x.ops) == 1]:
            pair_ = {unparse(t_.left), unparse(t_.comparators[0])}
            if lv_ and pair_ in ({'%s.ID' % lv_[0], 'self.ID'}, {lv_[0], 'self'}):
                ident_ = True
            elif lv_ and any(x_.startswith(lv_[0] + '.') for x_ in pair_) and any(x_.startswith('self.') for x_ in pair_):
                other_.append(unparse(t_))
        check.ob('C06.R2', '%s::exclusion-belongs-to-this-sector' % cash.key, ident_, '%s:%d' % (cash.module.rel, l.lineno),
                 'an exclusion is applied only to the sector object it was registered for' if ident_ else
                 'an exclusion is matched by `%s`, not by the identity of the sector it was registered for: it also removes the flow from the '
                 'income of another sector with the same attribute' % (other_[0] if other_ else 'no test on the recorded sector'),
                 'two countries with a household of the same code, the exclusion registered for one of them')

    def step(extra, node, lab, env, nxt):
        M, mo, mn, E, f_, inc = extra
        if node.kind == 'stmt':
            if block_addterm_nodes(node.ast, 'F'):
                f_ = min(2, f_ + 1)
            if block_addterm_nodes(node.ast, 'INC'):
                inc = min(2, inc + 1)
        if node.kind == 'for' and id(node.stmt) in loop_ids and lab is True:
            mo = mn = 0
        if node.kind == 'test' and lab in (True, False):
            for l in excl_loops:
                if l in node.loops:
                    o_, n_ = match_facts(node.ast, lab, l)
                    mo, mn = (1 if o_ else mo), (1 if n_ else mn)
        if mo and mn:
            M = 1
        # leaving the scan other than by exhausting it
        for l in excl_loops:
            inside_now = l in node.loops or (node.kind == 'for' and node.stmt is l)
            inside_next = l in nxt.loops or (nxt.kind == 'for' and nxt.stmt is l)
            if inside_now and not inside_next and not (node.kind == 'for' and node.stmt is l and lab is False) and not M:
                E = 1
        return (M, mo, mn, E, f_, inc)
    from ..dataflow import truth_search, trace
    res = {}
    for fv in (True, False):
        hits, seen = truth_search(g, [g.entry], [g.exit], env0={flag: (fv, None)}, extra0=(0, 0, 0, 0, 0, 0), step=step)
        res[fv] = [(k, seen) for k in seen if k[0] == g.exit.id]
    def witness(k, seen):
        return 'lines ' + ','.join(str(x) for x in trace(seen, k, g))
    bad_only, bad_if, bad_scan = [], [], []
    for fv in (True, False):
        for k, seen in res[fv]:
            M, mo, mn, E, f_, inc = k[2]
            if f_ == 0:
                continue
            if inc > 0 and (not fv or M):
                bad_only.append(witness(k, seen))
            if fv and not M and not E and inc != 1:
                bad_if.append(witness(k, seen))
            if E:
                bad_scan.append(witness(k, seen))
    same = bool(fadds) and bool(iadds) and all(
        unparse(block_addterm_nodes(n.ast, 'INC')[0].args[0]) == unparse(block_addterm_nodes(fadds[0].ast, 'F')[0].args[0]) for n in iadds)
    check.ob('C06.R2', '%s::INC-only-if-flag' % cash.key, not bad_only and same, iadds[0].ast.lineno and '%s:%d' % (cash.module.rel, iadds[0].line) if iadds else cash.where,
             'INC receives the same term, only when the income flag was passed in and no exclusion of this sector matches' if (not bad_only and same) else
             'INC entry not guarded by the income flag / a matching exclusion, or receives a different term' + (' (%s)' % bad_only[0] if bad_only else ''),
             'is_income=False flows, excluded flows')
    check.ob('C06.R2', '%s::INC-if-flag' % cash.key, not bad_if and bool(iadds), cash.where,
             'an income flow without a matching exclusion always gets exactly one INC entry' if (not bad_if and iadds) else
             'an income flow without a matching exclusion can miss the INC entry (or get it twice)' + (' (%s)' % bad_if[0] if bad_if else ''),
             "is_income=True flow; exclusion registered for another sector, or for 'DEM_GOOD' while the flow is '-DEM_GOODS'")
    for l in excl_loops:
        # every iteration examines the exclusion: object test, and the name test when the object test holds
        hdr = [h for h in g.nodes if h.kind == 'for' and h.stmt is l][0]
        tests = [t for t in g.nodes if t.kind == 'test' and l in t.loops]
        obj_tests = [t for t in tests if any(match_facts(t.ast, lab_, l)[0] for lab_ in (True, False))]
        name_tests = [t for t in tests if any(match_facts(t.ast, lab_, l)[1] for lab_ in (True, False))]
        first = [b_ for b_, lab_ in g.succ[hdr.id] if lab_ is True]
        exam = bool(obj_tests) and bool(name_tests) and all(g.nodes[b_] in obj_tests or g.must_pass(b_, hdr, obj_tests) for b_ in first)
        check.ob('C06.R2', '%s::exclusion-scan-complete' % cash.key, not bad_scan and exam, '%s:%d' % (cash.module.rel, l.lineno),
                 'every registered exclusion is examined (sector and name) until one matches' if (not bad_scan and exam) else
                 'the scan over the exclusions can stop before a matching exclusion was found, or skips exclusions' +
                 (' (%s)' % bad_scan[0] if bad_scan else ''),
                 'a sector with two exclusions, the flow matching the second one')
    if not excl_loops:
        check.ob('C06.R2', '%s::exclusion-scan-complete' % cash.key, False, cash.where, 'the income exclusions are never consulted',
                 'an excluded flow')
    # every registration of an exclusion is recorded: the registering method appends (sector, flow name) on every
    # normal path (an exclusion that is dropped lets the flow into INC)
    n_reg = 0
    for rf in prog.all_functions():
        apps_ = [c for c in ast.walk(rf.node) if isinstance(c, ast.Call) and call_name(c) == 'append' and
                 isinstance(c.func.value, ast.Attribute) and c.func.value.attr == 'IncomeExclusions']
        if not apps_:
            continue
        n_reg += 1
        check.saw(rf)
        rfl = flatten(prog, rf)
        gr_ = cfgmod.build(rfl)
        app_nodes = [nd for nd in gr_.stmt_nodes() if nd.kind == 'stmt' and any(
            isinstance(c, ast.Call) and call_name(c) == 'append' and isinstance(c.func.value, ast.Attribute) and
            c.func.value.attr == 'IncomeExclusions' for c in ast.walk(nd.ast))]
        always = bool(app_nodes) and gr_.must_pass(gr_.entry, gr_.exit, app_nodes)
        rp = rfl.params()[1:]
        pair_ok = True
        for nd in app_nodes:
            for c in ast.walk(nd.ast):
                if isinstance(c, ast.Call) and call_name(c) == 'append' and c.args:
                    a0 = c.args[0]
                    pair_ok = pair_ok and isinstance(a0, ast.Tuple) and len(a0.elts) == 2 and len(rp) >= 2 and \
                        [unparse(x) for x in a0.elts] == rp[:2]
        check.ob('C06.R2', '%s::exclusion-always-recorded' % rf.key, always and pair_ok, rf.where,
                 'every call records (sector, flow name) in the exclusion list' if (always and pair_ok) else
                 'a registered exclusion can be dropped (or is recorded under other values): the flow then counts as income',
                 'a sector with two excluded flows')
    check.ob('C06.R2', 'exclusion-registration-present', n_reg >= 1, cash.where, '%d registering method(s)' % n_reg, '')
    # ---- R3 ----------------------------------------------------------------------------------------
    eqn_p = params[2] if len(params) > 2 else 'eqn'
    overw = [n for n in g.stmt_nodes() if n.kind == 'stmt' and any(isinstance(c, ast.Call) and call_name(c) == 'SetEquationRightHandSide'
                                                                   for c in ast.walk(n.ast))]
    creat = [n for n in g.stmt_nodes() if n.kind == 'stmt' and any(isinstance(c, ast.Call) and call_name(c) == 'AddVariable'
                                                                   for c in ast.walk(n.ast))]

    def facts_at(n):
        out = []
        for test, outcome in g.conditions_at(n):
            out.extend((resolve_expr(e, sub), v) for _, v, e in atomic_facts(test, outcome))
            out.append((resolve_expr(test, sub), outcome))
        return out

    def has_definition(n):
        for e, v in facts_at(n):
            if isinstance(e, ast.Compare) and len(e.ops) == 1 and isinstance(e.ops[0], ast.Is) and unparse(e.left) == eqn_p and \
                    unparse(e.comparators[0]) == 'None' and v is False:
                return True
        return False
    none_ret = bool(overw + creat) and all(has_definition(n) for n in overw + creat)
    check.ob('C06.R3', '%s::no-definition-no-write' % cash.key, none_ret, cash.where,
             'without a defining expression the flow variable is neither created nor overwritten' if none_ret else
             'a flow registered without a definition can create / overwrite the variable', 'AddCashFlow(term) with eqn=None')

    def presence(n):
        """True / False: reaching n implies the flow variable exists / does not exist"""
        for e, v in facts_at(n):
            if isinstance(e, ast.Compare) and len(e.ops) == 1 and isinstance(e.ops[0], ast.In) and (
                    'GetVariables' in unparse(e.comparators[0]) or 'EquationBlock' in unparse(e.comparators[0])):
                return v
        return None
    for n in overw:
        ok_empty = False
        for e, v in facts_at(n):
            if v is not True:
                continue
            parts = e.values if (isinstance(e, ast.BoolOp) and isinstance(e.op, ast.Or)) else [e]
            lits = []
            for c in parts:
                if isinstance(c, ast.Compare) and len(c.ops) == 1 and isinstance(c.ops[0], ast.Eq) and isinstance(c.comparators[0], ast.Constant) \
                        and 'RHS()' in unparse(c.left).replace('GetRightHandSide', 'RHS'):
                    lits.append(c.comparators[0].value)
                elif isinstance(c, ast.Compare) and len(c.ops) == 1 and isinstance(c.ops[0], ast.In) and \
                        isinstance(c.comparators[0], (ast.Tuple, ast.List, ast.Set)) and 'RHS()' in unparse(c.left).replace('GetRightHandSide', 'RHS') \
                        and all(isinstance(x, ast.Constant) for x in c.comparators[0].elts):
                    lits.extend(x.value for x in c.comparators[0].elts)
                else:
                    lits.append(None)
            if lits and all(isinstance(x, str) and (x.strip() == '' or _is_zero(x)) for x in lits):
                ok_empty = True
        ok_present = presence(n) is True
        check.ob('C06.R3', '%s::overwrite-only-if-empty-or-zero' % cash.key, ok_empty and ok_present, '%s:%d' % (cash.module.rel, n.line),
                 'an existing flow variable is overwritten only when its current right-hand side is empty / zero' if (ok_empty and ok_present)
                 else 'an existing, non-trivial definition of the flow variable can be overwritten', "a sector that already defines 'T = 0.2*INC'")
    for n in creat:
        ok = presence(n) is False
        check.ob('C06.R3', '%s::create-only-if-absent' % cash.key, ok, '%s:%d' % (cash.module.rel, n.line),
                 'the flow variable is created only when absent' if ok else 'AddVariable can replace an existing variable', 'existing flow variable')
    # the variable defined is the sign-stripped name of the term
    names_ok = bool(overw + creat)
    for n in overw + creat:
        for c in ast.walk(n.ast):
            if isinstance(c, ast.Call) and call_name(c) in ('SetEquationRightHandSide', 'AddVariable') and c.args:
                a0 = c.args[0]
                txt = unparse(resolve_expr(a0, sub))
                good = txt.endswith('.Term')
                if isinstance(a0, ast.Name) and a0.id == term_p:
                    # the parameter re-bound to the sign-stripped name before the definition
                    rb = [a for a in g.stmt_nodes() if a.kind == 'stmt' and isinstance(a.ast, ast.Assign) and
                          term_p in target_names(a.ast.targets[0]) and unparse(a.ast.value).endswith('.Term')]
                    good = bool(rb) and any(g.dominates(a, n) for a in rb)
                names_ok = names_ok and good
    check.ob('C06.R3', '%s::defined-name-is-sign-stripped' % cash.key, names_ok, cash.where,
             'the variable defined is the sign-stripped term name' if names_ok else
             'the variable defined is not the sign-stripped term name', "AddCashFlow('-T', 'x')")
    # ---- R4 ----------------------------------------------------------------------------------------
    E = prog.classes.get('Equation')
    at_raw = E.methods.get('AddTerm') if E else None
    if at_raw is None:
        raise AnalysisError('Equation.AddTerm not found')
    check.saw(at_raw)
    at = flatten(prog, at_raw)
    ga = cfgmod.build(at)
    asub = single_assign_subst(at.node)
    merges = [n for n in ga.stmt_nodes() if n.kind == 'stmt' and isinstance(n.ast, ast.AugAssign) and isinstance(n.ast.op, ast.Add)
              and unparse(n.ast.target).endswith('.Constant')]
    appends = [n for n in ga.stmt_nodes() if n.kind == 'stmt' and any(isinstance(c, ast.Call) and call_name(c) == 'append' and
                                                                     'TermList' in unparse(c.func.value) for c in ast.walk(n.ast))]
    # feasible normal paths (truthiness constants honoured): each merges once or appends once
    def step4(extra, node, lab, env, nxt):
        k = extra
        if node in merges or node in appends:
            k = min(2, k + 1)
        return k
    hits, seen4 = truth_search(ga, [ga.entry], [ga.exit], extra0=0, step=step4)
    finals = [k for k in seen4 if k[0] == ga.exit.id]
    bad4 = [k for k in finals if k[2] != 1]
    check.ob('C06.R4', '%s::merge-xor-append' % at.key, not bad4 and bool(finals), at.where,
             'every normal path merges once or appends once' if not bad4 else
             'a path neither merges nor appends (term lost) or does both (term counted twice): lines %s' % trace(seen4, bad4[0], ga),
             'repeated / cancelling flows')
    new_p = at.params()[1]
    # the new term may be held in a local: new = Term(<parameter>)
    new_names = {new_p}
    for n_ in ast.walk(at.node):
        if isinstance(n_, ast.Assign) and len(n_.targets) == 1 and isinstance(n_.targets[0], ast.Name) and isinstance(n_.value, ast.Call) \
                and call_name(n_.value) in ('Term', 'copy', 'deepcopy') and n_.value.args and unparse(n_.value.args[0]) in new_names:
            new_names.add(n_.targets[0].id)

    def equal_text_fact(n, objtxt):
        """reaching n implies <new term>.Term == <objtxt>.Term"""
        for test, outcome in ga.conditions_at(n):
            for _, v, e0 in atomic_facts(test, outcome):
                for e in (e0, resolve_expr(e0, {k_: v_ for k_, v_ in asub.items() if k_ not in new_names})):
                    if v is True and isinstance(e, ast.Compare) and len(e.ops) == 1 and isinstance(e.ops[0], ast.Eq):
                        pair = {unparse(e.left), unparse(e.comparators[0])}
                        if any(pair == {nn + '.Term', objtxt + '.Term'} for nn in new_names) and objtxt not in new_names:
                            return True
        return False
    for n in merges:
        tgt = unparse(n.ast.target)[:-len('.Constant')]
        val_ok = any(unparse(n.ast.value) == nn + '.Constant' for nn in new_names)
        ok = equal_text_fact(n, tgt)
        if not ok and tgt.isidentifier():
            # the merged object is a local: every definition that is not None was chosen under the equal-text test
            defs = [d for d in ga.stmt_nodes() if d.kind == 'stmt' and isinstance(d.ast, ast.Assign) and tgt in target_names(d.ast.targets[0])]
            nn = [d for d in defs if not (isinstance(d.ast.value, ast.Constant) and d.ast.value.value is None)]
            not_none = any(v is False and isinstance(e, ast.Compare) and isinstance(e.ops[0], ast.Is) and unparse(e.left) == tgt and
                           unparse(e.comparators[0]) == 'None' for test, outcome in ga.conditions_at(n) for _, v, e in atomic_facts(test, outcome))
            ok = bool(nn) and (not_none or len(nn) == len(defs)) and all(
                isinstance(d.ast.value, ast.Name) and equal_text_fact(d, d.ast.value.id) for d in nn)
        check.ob('C06.R4', '%s::merge-only-equal-text' % at.key, ok and val_ok, '%s:%d' % (at.module.rel, n.line),
                 'coefficients are added only for textually equal terms' if (ok and val_ok) else
                 'coefficients are merged for terms that are not textually equal (or the added amount is not the new coefficient)',
                 "flows '+T' then '+TX'")
    # the appended object is the new term
    for n in appends:
        c = [c for c in ast.walk(n.ast) if isinstance(c, ast.Call) and call_name(c) == 'append'][0]
        ok = isinstance(c.args[0], ast.Name) and c.args[0].id in new_names
        check.ob('C06.R4', '%s::append-the-new-term' % at.key, ok, '%s:%d' % (at.module.rel, n.line), 'the new term is appended', '')
    # the text under which a flow is kept in F / INC is the text that was passed in (Term keeps its text verbatim)
    from ._common import term_text_verbatim
    tinit, tstores = term_text_verbatim(prog)
    check.saw(tinit)
    for n_, ok_, why_ in tstores:
        check.ob('C06.R4', '%s::term-text-verbatim(%s)' % (tinit.key, unparse(n_.value)), ok_, '%s:%d' % (tinit.module.rel, n_.lineno), why_,
                 "a flow 'W/P': F and INC must hold W/P, not P/W")
    # ---- W -----------------------------------------------------------------------------------------
    who_may_write(prog, check, 'C06.W', cash_raw)
    # ---- W (cont.): F and INC each keep their own copy of a booked term -------------------------------------------
    from ._common import addterm_private_copy
    at_, okp_ = addterm_private_copy(prog)
    check.saw(at_)
    check.ob('C06.W', '%s::entry-is-private-to-its-equation' % at_.key, okp_, at_.where,
             'a booked term is copied into the equation: the entries of F and INC are independent' if okp_ else
             'the object passed in can become the entry itself: when the same flow is booked again F merges it into the shared object and INC changes with it',
             'the same flow name booked twice on one sector')
    # ---- R2 (cont.): a flow registered on the model books each leg with that leg's own income flag ----------------
    from ._common import registration_always_recorded
    from .. import effects as _eff
    for rf_, ok_, why_ in registration_always_recorded(prog, 'RegisteredCashFlows', 5):
        check.saw(rf_)
        check.ob('C06.R2', '%s::registered-flow-recorded-with-both-flags' % rf_.key, ok_, rf_.where, why_,
                 'RegisterCashFlow(a, b, x, is_income_source=False, is_income_dest=True)')
    mcls_ = prog.cls('Model')
    gen_ = prog.resolve_method(mcls_, '_GenerateRegisteredCashFlows')
    if gen_ is None:
        raise AnalysisError('Model._GenerateRegisteredCashFlows not found')
    check.saw(gen_)
    it_ = _eff.run_method(prog, mcls_, '_GenerateRegisteredCashFlows')
    legs_ = {0: [], 1: []}
    for e_ in it_.effects:
        if e_.kind == 'cashflow':
            rk_ = e_.role.key()
            if len(rk_) == 4 and rk_[1] == 'loop' and 'registered_flows' in str(rk_[2]) and rk_[3] in (0, 1):
                legs_[rk_[3]].append(e_)
    def atomic_kinds(c_):
        if c_.kind in ('and', 'or', 'not'):
            out_ = set()
            for a_ in c_.args:
                out_ |= atomic_kinds(a_)
            return out_
        if c_.kind == 'g':
            return atomic_kinds(c_.args[0])
        return {c_.kind}
    skipping = []
    for i_ in (0, 1):
        for e_ in legs_[i_]:
            ks_ = set()
            for g_ in e_.guards:
                ks_ |= atomic_kinds(g_.cond)
            extra_ = ks_ - {'samezone', 'isnone'}
            if extra_:
                skipping.append((e_, sorted(extra_), [repr(g_) for g_ in e_.guards]))
    check.ob('C06.R2', '%s::every-registered-flow-is-booked' % gen_.key, not skipping, skipping[0][0].where if skipping else gen_.where,
             'a registered flow is booked whenever the generator runs: only the currency-zone test decides how' if not skipping else
             'a registered flow is booked only under %s: identical registrations (or a flow already seen) are dropped, so repeated '
             'flows no longer accumulate' % skipping[0][2][:2],
             'the same flow registered twice (two identical RegisterCashFlow calls)')
    for i_, nm_ in ((0, 'source'), (1, 'target')):
        want_ = ('P', 'elem', 'registered_flows()', 3 + i_)
        bad_ = [e_ for e_ in legs_[i_] if not (hasattr(e_.income, 'key') and e_.income.key() == want_)]
        ok_ = bool(legs_[i_]) and not bad_
        check.ob('C06.R2', '%s::registered-flow-income-flag(%s)' % (gen_.key, nm_), ok_, bad_[0].where if bad_ else gen_.where,
                 'the %s leg is booked with the flag registered for the %s' % (nm_, nm_) if ok_ else
                 ('the %s leg is booked with `%s` as its income flag, not with the flag registered for the %s: its INC gets (or misses) the flow'
                  % (nm_, bad_[0].income.show() if hasattr(bad_[0].income, 'show') else bad_[0].income, nm_)) if bad_ else
                 'no booking of the %s leg found' % nm_,
                 'a dividend: not income-relevant for the payer, income for the receiver')

    # a flow counts as income unless the caller says otherwise - on every entry point alike: the defaults of all `is_income...`
    # parameters of the package agree (cross-check of sibling interfaces: a flow registered through the model with default flags is
    # booked exactly as the same flow recorded directly on the sectors)
    flags_ = []
    for f_ in prog.all_functions():
        for p_, d_ in f_.defaults().items():
            if p_.startswith('is_income') and isinstance(d_, ast.Constant) and isinstance(d_.value, bool):
                flags_.append((f_, p_, d_.value))
    if len(flags_) >= 2:
        n_true = sum(1 for x_ in flags_ if x_[2])
        major = n_true * 2 >= len(flags_)
        for f_, p_, v_ in flags_:
            check.saw(f_)
            check.ob('C06.R2', '%s::income-default-agrees(%s)' % (f_.key, p_), v_ == major, f_.where,
                     'default %s=%r as on the other entry points' % (p_, v_) if v_ == major else
                     'default %s=%r while the other cash-flow entry points default to %r: the same flow is income or not depending on the '
                     'entry point used to record it' % (p_, v_, major),
                     'RegisterCashFlow(src, tgt, var) against src.AddCashFlow / tgt.AddCashFlow with default flags')
    check.floor('C06.R1', 2)
    check.floor('C06.R2', 3)
    check.floor('C06.R3', 4)
    check.floor('C06.R4', 3)
    check.floor('C06.W', 4)


def _is_zero(s):
    try:
        return float(s) == 0.0
    except ValueError:
        return False
