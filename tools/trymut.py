"""Development helper: copy /repo/sfc_models to a scratch dir, apply one exact-text edit, run checks with --root.
usage: trymut.py <pid[,pid..]|all> <relfile> <old> <new> [--tests]"""
import os, shutil, subprocess, sys, tempfile
pids, rel, old, new = sys.argv[1:5]
d = tempfile.mkdtemp(prefix='sfcv_mut_')
try:
    shutil.copytree('/repo/sfc_models', d + '/sfc_models', ignore=shutil.ignore_patterns('__pycache__'))
    p = os.path.join(d, rel)
    s = open(p).read()
    if s.count(old) != 1:
        print('edit anchor count =', s.count(old)); sys.exit(3)
    open(p, 'w').write(s.replace(old, new))
    import py_compile
    py_compile.compile(p, doraise=True)
    if '--tests' in sys.argv:
        shutil.copytree('/repo/test', d + '/test', ignore=shutil.ignore_patterns('__pycache__'))
        r = subprocess.run(['/venv/bin/python', '-m', 'pytest', '-q', '-p', 'no:cacheprovider', '-x', '--timeout=300'], cwd=d,
                           env=dict(os.environ, PYTHONPATH=d), capture_output=True, text=True)
        print('TESTS:', r.stdout.strip().splitlines()[-1] if r.stdout.strip() else r.stderr[-300:])
    plist = ['C%02d' % i for i in range(1, 21)] if pids == 'all' else pids.split(',')
    for pid in plist:
        if not os.path.exists('/verif/sfcv/rules/%s.py' % pid):
            continue
        r = subprocess.run(['/venv/bin/python', '-m', 'sfcv', 'check', pid, '--root', d], cwd='/verif',
                           capture_output=True, text=True)
        lines = [l for l in r.stdout.splitlines() if not l.startswith('analysed:')]
        print('[%s exit=%d] %s' % (pid, r.returncode, '\n    '.join(lines[:8])))
finally:
    shutil.rmtree(d, ignore_errors=True)
    subprocess.run(['git', '-C', '/verif', 'checkout', '--', 'evidence'], capture_output=True)
