"""Development helper: create scratch worktrees of /repo under /tmp/wt and write the task file of one round of
sub-agents (breaking agents B<n>, refactoring agents R<n>).  The agents get the property text only - nothing from /verif.
usage: mk_agent_tasks.py <first B number> <first R number> <pair offset> [style]
style 4 (default): bold cross-function work (round 4); style 5: minimal mutations / modern-syntax and re-organising refactorings (round 5)"""
import json, subprocess, os, sys
b0, r0, off = int(sys.argv[1]), int(sys.argv[2]), int(sys.argv[3])
style = sys.argv[4] if len(sys.argv) > 4 else '4'
props = {}
for l in open('/verif/properties.jsonl'):
    d = json.loads(l); props[d['id']] = d


def ptext(pid):
    d = props[pid]
    return '''**%s - %s**

Statement: %s

Quantified over: %s

Why the existing tests cannot settle it: %s

Code the property is anchored in: %s
''' % (pid, d['title'], d['statement'], d['quantifier']['text'], d['why_tests_cant'], str(d.get('anchors')))


COMMON_RUN = '''## How to run things

* tests:  `cd {wt} && PYTHONPATH={wt} /venv/bin/python -m pytest -ra -q -p no:cacheprovider --timeout=900 --continue-on-collection-errors`
  The unmodified tree gives exactly `1 failed, 221 passed` (the failing `test_main` is a known baseline failure). With your
  change applied the result must be exactly the same. (The run leaves a stray untracked file `output\\unittest_output_2.py`; ignore/delete it.)
* There is no network. Use /venv/bin/python (3.12). `git diff` gives you the patch.

**Do NOT use `git stash`** (the stash is shared between worktrees and collides with other people). To go back and forth use
`git diff > _out/<name>/patch.diff`, `git apply -R _out/<name>/patch.diff`, `git apply _out/<name>/patch.diff`, `git checkout -- .`.
'''

BREAK = '''# Task: break properties of SFC_models without the test suite noticing

You are working in a scratch git worktree of the pure-Python project brianr747/SFC_models at **{wt}**.
Work ONLY inside {wt}. Do not read, list or modify /repo, /verif or any other worktree under /tmp/wt; everything you
need is in your worktree. (The package is `sfc_models/`, the tests are `test/` and `sfc_models/deprecated/test_*.py`.)

## The two properties (what users of the library rely on)

{p1}

{p2}

(The code base has recently been repaired in several places, so read the current code rather than assuming defects.)

## What to produce

Produce **four different** source changes (four independent patches, each against the unmodified HEAD of the worktree):
`change1`, `change2` break the FIRST property, `change3`, `change4` break the SECOND. Each changes the package under
`sfc_models/` so that it **breaks that property** while the code still imports and the **existing test suite still passes
unchanged**. Do not edit any test file.

Each change must be one that **a careful reviewer reading the diff would probably approve**: a refactoring that restructures a
function (for each property at least ONE of the two must be a genuine restructuring of 10+ lines: extracted helpers, a loop turned
into a comprehension, merged branches, a changed data structure, caching / memoising, lazy evaluation, a generator instead of a list),
an "optimisation", a clean-up, a dropped defensive copy, a moved or weakened guard, a wrong-but-similar variable inside a
restructuring, a changed default, an early exit, state that is no longer reset, error handling that became broader or narrower,
or two sites that each look fine alone. It must need something **specific to manifest** (unusual input, particular model
topology, a multi-step call sequence, a second call on the same object, a particular ordering, two objects sharing something)
rather than something ordinary use exposes at once. The four changes must differ in kind AND touch four different functions, in
different files where the property reaches several files. Look beyond the obvious spot: helpers far from the main path,
constructors and defaults, the interaction of two methods, `gl_book/`, `external.py`, `utils.py`, `equation.py`,
`equation_parser.py`, `base_solver.py`, `deprecated/iterative_machine_generator.py` wherever the property reaches them.

For each change write a **demonstration** `demo.py`: exits 0 (prints PASS) on the unmodified code and exits non-zero
(prints FAIL) with the change applied, showing the *property* being violated.

{run}
* demo:   `cd {wt} && PYTHONPATH={wt} /venv/bin/python _out/changeN/demo.py`

## Deliverables

    {wt}/_out/change1/patch.diff  demo.py  notes.md     (notes: which property and clause is broken, what is needed to manifest, what you ran and saw)
    ... change2, change3, change4 likewise; put the property id (e.g. C07) on the first line of notes.md.

Verify for each: (a) patch applies to clean HEAD with `git apply --check`, (b) suite result identical to baseline, (c) demo
fails with the patch and passes without. Finish with `git checkout -- .` (only `_out/` and `_task.md` untracked). Final message:
4 lines per change.
'''

REFAC = '''# Task: behaviour-preserving refactorings of SFC_models

You are working in a scratch git worktree of the pure-Python project brianr747/SFC_models at **{wt}**.
Work ONLY inside {wt}. Do not read, list or modify /repo, /verif or any other worktree under /tmp/wt.
(The package is `sfc_models/`, the tests are `test/` and `sfc_models/deprecated/test_*.py`.)

## Context: two behaviours users rely on

{p1}

{p2}

## What to produce

Produce **five different refactorings** (independent patches, each against the unmodified HEAD) of the code these two behaviours
are anchored in. Each must be **strictly behaviour-preserving for every input** - same results, same exceptions (type and message),
same side effects and their order, same log output - while changing the *shape* of the code as much as a maintainer plausibly
would in a serious clean-up. Do not edit test files; do not change public names or signatures.

Use a different mix of techniques in each patch, and be bold - 20 to 70 changed lines each. Beyond the usual local rewrites
(loops <-> comprehensions / any / all / enumerate / zip, inverted conditions, guard clauses, conditional expressions, renamed locals,
temporaries), at least three of the five must restructure ACROSS functions:
* extract helpers that return a bool, a tuple, or have several return statements; helpers shared by two callers; nested functions /
  closures capturing locals; a generator function consumed by the caller; `functools.partial`;
* move a piece of logic into another class or a module-level function (keeping every observable effect and its order), or inline an
  existing helper into all its callers;
* replace an if/elif chain by a dict dispatch or a small table; replace a flag by `for ... else`, by `next(..., default)`, or by early
  returns - or the reverse;
* change a local data structure: list of pairs <-> two parallel lists <-> dict; tuple <-> small local class / namedtuple;
  counter <-> list of matches <-> sentinel; string accumulation <-> list + join;
* rearrange try/except: narrow the try body with `else:`, hoist code that cannot raise out of the try, merge two handlers that do
  the same thing - only where the set of caught exceptions and everything observable stays the same;
* `'%s' % x` <-> `'{{}}'.format(x)` <-> concatenation only where the produced text is identical for every input.

refactor1, refactor2, refactor3 concern the code of the FIRST behaviour, refactor4, refactor5 the SECOND. Touch different
functions (and files, where the behaviour reaches several) in different patches.

For EVERY patch you must convince yourself of equivalence: write a small comparison script that runs a set of scenarios (normal use,
edge cases, error cases - compare exception type and message) on the unmodified and on the patched tree and diff the transcripts.

{run}

## Deliverables

    {wt}/_out/refactor1/patch.diff  notes.md      (notes: what changed, why it is equivalent for every input, what you ran)
    ... refactor2 .. refactor5 likewise.

Verify for each: (a) patch applies to clean HEAD with `git apply --check`, (b) suite result identical to baseline, (c) your
comparison shows no difference. Finish with `git checkout -- .` (only `_out/` and `_task.md` untracked). Final message: 3 lines per patch.
'''
BREAK5 = '''# Task: small bugs in SFC_models that the test suite does not notice

You are working in a scratch git worktree of the pure-Python project brianr747/SFC_models at **{wt}**.
Work ONLY inside {wt}. Do not read, list or modify /repo, /verif or any other worktree under /tmp/wt; everything you
need is in your worktree. (The package is `sfc_models/`, the tests are `test/` and `sfc_models/deprecated/test_*.py`.)

## The two properties (what users of the library rely on)

{p1}

{p2}

(The code base has recently been repaired in several places, so read the current code rather than assuming defects.)

## What to produce

Produce **six different** small source changes (six independent patches, each against the unmodified HEAD of the worktree):
`change1..change3` break the FIRST property, `change4..change6` break the SECOND. Each changes the package under `sfc_models/` so
that it **breaks that property** while the code still imports and the **existing test suite still passes unchanged**. Do not edit
any test file.

Each change is **small: one to four changed lines**, the kind of slip a mutation-testing tool or a tired developer produces and a
reviewer skims over: a changed comparison or boundary (`<` / `<=`, `>` / `>=`, `==` / `!=`, `is` / `==`), `and` / `or`, a dropped or
added `not`, an off-by-one in a range / slice / index, first or last element skipped, a wrong-but-similar variable or attribute
of the same type, two arguments swapped, a statement removed or moved above / below its neighbour (a reset, an append, an update
of a dict, a `continue` / `break` / `return`), `break` <-> `continue`, a defensive copy dropped, a changed default argument or
constant, a changed format specification or separator, a sign, `+=` <-> `=`, `append` <-> `insert(0, ..)` / `extend`,
`sorted(..)` dropped or added, a narrower / broader `except`, `str.strip` <-> `lstrip`, `startswith` <-> `in`, a key looked up in
the wrong dict, a loop over the wrong one of two similar collections, a condition tested before instead of after an update.
The six changes must be of six different kinds and touch at least five different functions - in different files wherever the
property reaches several: look at helpers far from the main path, constructors and defaults, `gl_book/`, `external.py`,
`utils.py`, `equation.py`, `equation_parser.py`, `equation_solver.py`, `base_solver.py`, `models.py`, `sector.py`,
`sector_definitions.py`, `deprecated/iterative_machine_generator.py` wherever the property reaches them. Many such slips
are caught by the tests or leave the property intact: keep only those that really break it (your demo decides).

For each change write a **demonstration** `demo.py`: exits 0 (prints PASS) on the unmodified code and exits non-zero
(prints FAIL) with the change applied, showing the *property* being violated (not merely some difference).

{run}
* demo:   `cd {wt} && PYTHONPATH={wt} /venv/bin/python _out/changeN/demo.py`

## Deliverables

    {wt}/_out/change1/patch.diff  demo.py  notes.md     (notes: which property and clause is broken, what is needed to manifest, what you ran and saw)
    ... change2 .. change6 likewise; put the property id (e.g. C07) on the first line of notes.md.

Verify for each: (a) patch applies to clean HEAD with `git apply --check`, (b) suite result identical to baseline, (c) demo
fails with the patch and passes without. Finish with `git checkout -- .` (only `_out/` and `_task.md` untracked). Final message:
3 lines per change.
'''

REFAC5 = '''# Task: behaviour-preserving modernisation of SFC_models

You are working in a scratch git worktree of the pure-Python project brianr747/SFC_models at **{wt}**.
Work ONLY inside {wt}. Do not read, list or modify /repo, /verif or any other worktree under /tmp/wt.
(The package is `sfc_models/`, the tests are `test/` and `sfc_models/deprecated/test_*.py`.) Python is 3.12.

## Context: two behaviours users rely on

{p1}

{p2}

## What to produce

Produce **five different refactorings** (independent patches, each against the unmodified HEAD) of the code these two behaviours
are anchored in. Each must be **strictly behaviour-preserving for every input** - same results, same exceptions (type and message),
same side effects and their order, same log output - the kind of patch a maintainer merges in a "modernise / tidy up" pull request.
Do not edit test files; do not change public names or signatures (private names - leading underscore - and locals may be renamed
consistently).

Each patch 15 to 80 changed lines, each with a different flavour; over the five patches use most of the following:
* **modern syntax**: f-strings instead of `%` / `.format` / concatenation (identical text for every input only), the walrus
  operator, `match` / `case` instead of if/elif chains on a value, type annotations on signatures and *annotated assignments*
  (`x: int = 0`, `self.items: list = []`), star-unpacking (`first, *rest = ..`), chained comparisons, augmented assignments,
  `str.removeprefix/removesuffix/partition`, `dict | dict`, `dict.setdefault` / `collections.defaultdict` / `Counter`,
  `itertools.chain`, `contextlib` helpers, `sorted(key=..)`, `any` / `all` / `sum` with generators, `enumerate(start=)`, `zip`;
* **re-organisation across the class hierarchy and modules**: move a method body into a new private method of a base class or a
  small mixin, or into a module-level function in `utils.py` (or a new private module) that the method calls; turn a method that
  does not use `self` into a `@staticmethod`; introduce a `@property` for a private computation; split a long function into
  three steps that pass a small `NamedTuple` / dataclass / dict between them; merge two near-duplicate functions into one
  parameterised helper; move a class-level constant / table next to its only user or into the class body;
* **control flow**: guard clauses and early returns vs nested ifs, `for ... else`, `while True` + `break` vs a condition,
  `try / except / else / finally` tidied (same set of caught exceptions), a loop turned into a comprehension plus a second loop,
  or the reverse; a flag replaced by a sentinel or by `next(..., None)`, or the reverse;
* **renames**: rename private attributes / private methods / locals consistently (including every use in other modules).

refactor1, refactor2, refactor3 concern the code of the FIRST behaviour, refactor4, refactor5 the SECOND. Touch different
functions (and files, where the behaviour reaches several) in different patches; at least two of the five must touch two files.

For EVERY patch you must convince yourself of equivalence: write a small comparison script that runs a set of scenarios (normal use,
edge cases, error cases - compare exception type and message) on the unmodified and on the patched tree and diff the transcripts.

{run}

## Deliverables

    {wt}/_out/refactor1/patch.diff  notes.md      (notes: what changed, why it is equivalent for every input, what you ran)
    ... refactor2 .. refactor5 likewise.

Verify for each: (a) patch applies to clean HEAD with `git apply --check`, (b) suite result identical to baseline, (c) your
comparison shows no difference. Finish with `git checkout -- .` (only `_out/` and `_task.md` untracked). Final message: 3 lines per patch.
'''
if style in ('5', '6'):
    BREAK, REFAC = BREAK5, REFAC5
if style == '6':
    # round 6: the refactorings go where the newest rules look
    REFAC = REFAC5.replace('''refactor1, refactor2, refactor3 concern the code of the FIRST behaviour''', '''Wherever the two behaviours reach them, prefer these places (they are rarely touched by clean-ups, which is why they are worth
tidying): constructors and their defaults (instance defaults moved to class attributes or the reverse, keyword-only parameters,
default values spelled differently but equal), registration methods that only record their arguments (AddExogenous,
AddInitialCondition, RegisterCashFlow, AddGlobalEquation, _RegisterAlias), small predicates and helpers in `utils.py`
(is_local_variable, list_tokens, replace_token..., Logger and its log registration), error handling (try / except / finally blocks,
which exceptions are caught and re-raised), `Model.main`, `Model.GetTimeSeries`, `Model._FitIntoCurrencyZone` / `_AddCountry`,
`Equation.__init__` / `Term.__init__` (how text is split and tokens are classified), the loops in
`EquationSolver.SetInitialConditions` and `CalculateInitialSteadyState`, `ExternalSector` / `InternationalGold` in `external.py`,
the base class of the book builders in `gl_book/__init__.py`, `MoneyMarket` / `DepositMarket` / `TaxFlow._GenerateEquations`.

refactor1, refactor2, refactor3 concern the code of the FIRST behaviour''')
ids = ['C%02d' % i for i in range(1, 21)]
first, second = ids[:10], ids[10:]
pairs = [(first[i], second[(i + off) % 10]) for i in range(10)]
if os.environ.get('PAIRS'):
    # explicit pairs for a targeted round: PAIRS="C07:C14,C17:C20" (breaking agents get them as written: first -> change1-3)
    pairs = [tuple(reversed(x.split(':'))) for x in os.environ['PAIRS'].split(',')]
ONLY_B = bool(os.environ.get('ONLY_B'))
ONLY_R = bool(os.environ.get('ONLY_R'))
os.makedirs('/tmp/wt', exist_ok=True)
for i, (a, b) in enumerate(pairs):
    for kind, tmpl, base in ((('B', BREAK, b0),) if ONLY_B else (('R', REFAC, r0),) if ONLY_R else (('B', BREAK, b0), ('R', REFAC, r0))):
        name = '%s%02d' % (kind, base + i)
        wt = '/tmp/wt/' + name
        if not os.path.isdir(wt):
            subprocess.run(['git', '-C', '/repo', 'worktree', 'add', '--detach', wt, 'HEAD'], capture_output=True)
        p1, p2 = (b, a) if kind == 'B' else (a, b)
        open(wt + '/_task.md', 'w').write(tmpl.format(wt=wt, p1=ptext(p1), p2=ptext(p2), run=COMMON_RUN.format(wt=wt)))
        json.dump({'props': [p1, p2]}, open(wt + '/_props.json', 'w'))
        print(name, p1, p2)
